(* Single entry point through which the harness runs model and spec functions:
   [run opcode argument].  Extracted to OCaml (bin/dlms_model) and also evaluated in the
   kernel by generated cases files.  Opcode names are parsed from the comments below by
   harness/lib.py — keep the format  "| <n> (* <name> *) =>". *)
From Dlms Require Import Base CrcModel CrcSpec FieldsModel FieldsSpec AddrModel AddrSpec WrapperModel WrapperSpec
  TimeModel TimeSpec AxdrModel AxdrSpec AxdrBridge FrameModel FrameSpec HdlcConnModel HdlcScript HdlcLinkSpec
  ParsersModel AssocModel AssocSpec TransportModel ClientModel Aes Gcm SecurityModel XdlmsModel XdlmsSpec AcseModel AcseSpec ConnModel.

Definition v_bools (l : list bool) : V := VList (map VBool l).
Definition as_bools (v : V) : list bool := map as_b (as_list v).
Definition v_sc (x : sc) : V := let '(s, a, e, k, c) := x in VList [VN s; VBool a; VBool e; VBool k; VBool c].
Definition v_iid (x : iid) : V := let '(i, c, h) := x in VList [VN i; VBool c; VBool h].
Definition v_liid (x : liid) : V := let '(i, p, c, s, b) := x in VList [VN i; VBool p; VBool c; VBool s; VBool b].
Definition v_cstat (x : cstat) : V := let '(a, b, c, d, e) := x in VList [VBool a; VBool b; VBool c; VBool d; VBool e].
Definition v_ictrl (x : ictrl) : V := let '(s, r, f) := x in VList [VN s; VN r; VBool f].
Definition v_fmt (x : fmt) : V := let '(l, s) := x in VList [VN l; VBool s].
Definition v_ns (l : list N) : V := VList (map VN l).
Definition as_ns (v : V) : list N := map as_n (as_list v).

Definition v_optn (o : option N) : V := v_opt VN o.
Definition as_optz (v : V) : option Z := match v with VInt z => Some z | _ => None end.
Definition as_optn (v : V) : option N := match v with VInt z => Some (Z.to_N z) | _ => None end.
Definition v_addr (x : addr) : V := let '(l, p, s) := x in VList [VN l; v_optn p; VBool s].
Definition v_found (x : N * option N * nat) : V := let '(l, p, k) := x in VList [VN l; v_optn p; v_nat k].

Definition v_whdr (h : whdr) : V := let '(s, d, l, v) := h in VList [VN s; VN d; VN l; VN v].
Definition as_nats (v : V) : list nat := map (fun x => N.to_nat (as_n x)) (as_list v).

Definition v_optz (o : option Z) : V := v_opt VInt o.
Definition v_dtime (x : dtime) : V :=
  let '(y, m, d, h, mi, s, us, off) := x in VList [VN y; VN m; VN d; VN h; VN mi; VN s; VN us; v_optz off].
Definition as_dtime (v : V) : dtime :=
  (as_n (arg 0 v), as_n (arg 1 v), as_n (arg 2 v), as_n (arg 3 v), as_n (arg 4 v), as_n (arg 5 v), as_n (arg 6 v),
   as_optz (arg 7 v)).
Definition as_cstat (v : V) : cstat := (as_b (arg 0 v), as_b (arg 1 v), as_b (arg 2 v), as_b (arg 3 v), as_b (arg 4 v)).
Definition as_opt_cstat (v : V) : option cstat := if is_none v then None else Some (as_cstat v).
Definition v_date3 (x : date3) : V := let '(y, m, d) := x in VList [VN y; VN m; VN d].
Definition v_time4 (x : time4) : V := let '(h, mi, s, us) := x in VList [VN h; VN mi; VN s; VN us].

Fixpoint v_pv (p : pv) : V :=
  match p with
  | PNone => VNone | PBool b => VBool b | PInt z => VInt z | PBytes l => VBytes l
  | PList l => VList ((fix go (l : list pv) : list V := match l with [] => [] | x :: r => v_pv x :: go r end) l)
  | PDateTime x st => VList [VBytes [100; 116]; v_dtime x; v_cstat st]
  | PDate d => VList (VBytes [100] :: match v_date3 d with VList l => l | _ => [] end)
  | PTime t => VList (VBytes [116] :: match v_time4 t with VList l => l | _ => [] end)
  end.
(* value trees as V: [tag; payload...] *)
Fixpoint as_data (v : V) : data :=
  match v with
  | VList [VInt 0] => DNull
  | VList [VInt 3; VBool b] => DBool b
  | VList [VInt 15; VInt z] => DI8 z
  | VList [VInt 16; VInt z] => DI16 z
  | VList [VInt 5; VInt z] => DI32 z
  | VList [VInt 20; VInt z] => DI64 z
  | VList [VInt 17; VInt z] => DU8 (Z.to_N z)
  | VList [VInt 18; VInt z] => DU16 (Z.to_N z)
  | VList [VInt 6; VInt z] => DU32 (Z.to_N z)
  | VList [VInt 21; VInt z] => DU64 (Z.to_N z)
  | VList [VInt 22; VInt z] => DEnum (Z.to_N z)
  | VList [VInt 9; VBytes l] => DOctets l
  | VList [VInt 25; x; st] => DDateTime (as_dtime x) (as_cstat st)
  | VList [VInt 26; VInt y; VInt m; VInt d] => DDate (Z.to_N y, Z.to_N m, Z.to_N d)
  | VList [VInt 27; VInt h; VInt mi; VInt s; VInt hu] => DTime (Z.to_N h) (Z.to_N mi) (Z.to_N s) (Z.to_N hu)
  | VList [VInt 1; VList ch] =>
      DArray ((fix go (l : list V) : list data := match l with [] => [] | x :: r => as_data x :: go r end) ch)
  | VList [VInt 2; VList ch] =>
      DStruct ((fix go (l : list V) : list data := match l with [] => [] | x :: r => as_data x :: go r end) ch)
  | _ => DNull
  end.

Definition as_kind (v : V) : fkind :=
  let k := as_n v in
  if k =? 0 then KSnrm else if k =? 1 then KUa else if k =? 2 then KRr else if k =? 3 then KInfo
  else if k =? 4 then KDisc else KUi.
Definition as_addr (v : V) : addr := (as_n (arg 0 v), as_optn (arg 1 v), as_b (arg 2 v)).
Definition as_optbytes (v : V) : option bytes := match v with VBytes l => Some l | _ => None end.
Definition v_frame (f : frame) : V :=
  VList [v_addr (f_dest f); v_addr (f_src f); v_opt VBytes (f_payload f); VBool (f_segmented f);
         VBool (f_final f); VN (f_ssn f); VN (f_rsn f)].

Definition as_frame (a : V) (off : nat) : frame :=
  {| f_dest := as_addr (arg off a); f_src := as_addr (arg (off + 1) a); f_payload := as_optbytes (arg (off + 2) a);
     f_segmented := as_b (arg (off + 3) a); f_final := as_b (arg (off + 4) a);
     f_ssn := as_n (arg (off + 5) a); f_rsn := as_n (arg (off + 6) a) |}.
Definition as_link (a : V) (off : nat) : link :=
  {| l_state := as_n (arg off a); client_ssn := as_n (arg (off + 1) a); client_rsn := as_n (arg (off + 2) a);
     server_ssn := as_n (arg (off + 3) a); server_rsn := as_n (arg (off + 4) a) |}.
(* one scripted operation on a connection: [0; bytes] receive_data, [1] next_event,
   [2; client; server] drain, [3; kind; frame...] send, [4; link...] force the link state *)
Definition script_step (c : conn) (o : V) : V * conn :=
  let code := as_n (arg 0 o) in
  if code =? 0 then let c' := receive_data c (as_bytes (arg 1 o)) in (snapshot c', c')
  else if code =? 1 then let '(e, c') := next_event c in (VList [v_event e; snapshot c'], c')
  else if code =? 2 then
    let '(evs, c') := drain (length (c_buf c) + 4) c (as_addr (arg 1 o)) (as_addr (arg 2 o)) [] in
    (VList [VList evs; snapshot c'], c')
  else if code =? 3 then
    let '(r, c') := conn_send c (as_kind (arg 1 o)) (as_frame o 2) in (VList [v_res VBytes r; snapshot c'], c')
  else
    let c' := {| c_link := as_link o 1; c_buf := c_buf c; c_pos := c_pos c |} in (snapshot c', c').
Fixpoint script_run (c : conn) (ops : list V) : list V :=
  match ops with
  | [] => []
  | o :: r => let '(out, c') := script_step c o in out :: script_run c' r
  end.

Fixpoint as_pv (v : V) : pv :=
  match v with
  | VNone => PNone | VBool b => PBool b | VInt z => PInt z | VBytes l => PBytes l
  | VList l => PList ((fix go (l : list V) : list pv := match l with [] => [] | x :: r => as_pv x :: go r end) l)
  | VErr _ => PNone
  end.
Definition v_cell (c : cell) : V :=
  match c with
  | CellNone => VNone
  | Cell col (CDateTime x) => VList [v_nat col; VList [VBytes [100; 116]; v_dtime x]]
  | Cell col (CRaw p) => VList [v_nat col; v_pv p]
  end.
Definition v_access (x : access_item) : V := let '(a, rights, sel) := x in VList [v_pv a; v_ns rights; v_pv sel].
Definition v_object (x : object_item) : V :=
  let '(cls, version, name, attrs, meths) := x in
  VList [VN cls; v_pv version; VBytes name; VList (map v_access attrs); VList (map v_access meths)].

(* scripted transport session: [client; server; pending; sched; ops], ops: [0] connect, [1; telegram] send, [2] disconnect *)
Definition t_step (t : transport) (o : V) : V * transport :=
  let code := as_n (arg 0 o) in
  if code =? 0 then let '(e, t') := t_connect t in (v_event e, t')
  else if code =? 1 then let '(r, t') := t_send t (as_bytes (arg 1 o)) in (v_res VBytes r, t')
  else let '(e, t') := t_disconnect t in (v_event e, t').
Fixpoint t_script (t : transport) (ops : list V) : list V * transport :=
  match ops with
  | [] => ([], t)
  | o :: r => let '(out, t1) := t_step t o in let '(outs, t2) := t_script t1 r in (out :: outs, t2)
  end.

Definition as_resp (v : V) : resp :=
  {| r_kind := as_n (arg 0 v); r_data := as_bytes (arg 1 v); r_block := as_n (arg 2 v); r_iid := as_n (arg 3 v); r_code := as_n (arg 4 v) |}.
Definition v_resp (r : resp) : V := VList [VN (r_kind r); VBytes (r_data r); VN (r_block r); VN (r_iid r); VN (r_code r)].
Definition cl_step (c : cl) (o : V) : V * cl :=
  let code := as_n o in
  if code =? 0 then let '(r, c') := cl_get c in (v_res VBytes r, c')
  else if code =? 1 then let '(r, c') := cl_set c in (v_res v_resp r, c')
  else let '(r, c') := cl_action c in (v_res (v_opt VBytes) r, c').
Fixpoint cl_script (c : cl) (ops : list V) : list V * cl :=
  match ops with
  | [] => ([], c)
  | o :: r => let '(out, c1) := cl_step c o in let '(outs, c2) := cl_script c1 r in (out :: outs, c2)
  end.

Definition as_sc (v : V) : sc := (as_n (arg 0 v), as_b (arg 1 v), as_b (arg 2 v), as_b (arg 3 v), as_b (arg 4 v)).

Definition v_desc (c : cosem_desc) : V := let '(i, o, a) := c in VList [VN i; VBytes o; VN a].
Definition as_desc (v : V) : cosem_desc := (as_n (arg 0 v), as_bytes (arg 1 v), as_n (arg 2 v)).
Definition as_iid (v : V) : iid := (as_n (arg 0 v), as_b (arg 1 v), as_b (arg 2 v)).
Definition as_liid (v : V) : liid := (as_n (arg 0 v), as_b (arg 1 v), as_b (arg 2 v), as_b (arg 3 v), as_b (arg 4 v)).
Definition as_optdt (v : V) : option dtime := if is_none v then None else Some (as_dtime v).
Definition v_apdu (a : apdu) : V :=
  match a with
  | GetRequestNormal attr i acc => VList [VN 0; v_desc attr; v_iid i; v_opt VBytes acc]
  | GetRequestNext b i => VList [VN 1; VN b; v_iid i]
  | GetResponseNormal d i => VList [VN 2; VBytes d; v_iid i]
  | GetResponseNormalWithError e i => VList [VN 3; VN e; v_iid i]
  | GetResponseWithBlock d b i => VList [VN 4; VBytes d; VN b; v_iid i]
  | GetResponseLastBlock d b i => VList [VN 5; VBytes d; VN b; v_iid i]
  | GetResponseLastBlockWithError e b i => VList [VN 6; VN e; VN b; v_iid i]
  | SetRequestNormal attr d i => VList [VN 7; v_desc attr; VBytes d; v_iid i]
  | SetResponseNormal r i => VList [VN 8; VN r; v_iid i]
  | ActionRequestNormal m d i => VList [VN 9; v_desc m; v_opt VBytes d; v_iid i]
  | ActionResponseNormal st i => VList [VN 10; VN st; v_iid i]
  | ActionResponseNormalWithData st d i => VList [VN 11; VN st; VBytes d; v_iid i]
  | ActionResponseNormalWithError st e i => VList [VN 12; VN st; VN e; v_iid i]
  | DataNotification l dt body => VList [VN 13; v_liid l; v_opt v_dtime dt; VBytes body]
  | ExceptionResponse st sv c => VList [VN 14; VN st; VN sv; v_optn c]
  | ConfirmedServiceError cls v => VList [VN 15; VN cls; VN v]
  | InitiateRequest conf q mp ver ra dk => VList [VN 16; v_bools conf; v_optn q; VN mp; VN ver; VBool ra; v_opt VBytes dk]
  | InitiateResponse conf mp ver q => VList [VN 17; v_bools conf; VN mp; VN ver; VN q]
  | GlobalCipherInitiateRequest s c t => VList [VN 18; v_sc s; VN c; VBytes t]
  | GlobalCipherInitiateResponse s c t => VList [VN 19; v_sc s; VN c; VBytes t]
  | GeneralGlobalCipher ti s c t => VList [VN 20; VBytes ti; v_sc s; VN c; VBytes t]
  | NoneValue => VNone
  end.
Definition as_apdu (v : V) : apdu :=
  let k := as_n (arg 0 v) in
  if k =? 0 then GetRequestNormal (as_desc (arg 1 v)) (as_iid (arg 2 v)) (as_optbytes (arg 3 v))
  else if k =? 1 then GetRequestNext (as_n (arg 1 v)) (as_iid (arg 2 v))
  else if k =? 2 then GetResponseNormal (as_bytes (arg 1 v)) (as_iid (arg 2 v))
  else if k =? 3 then GetResponseNormalWithError (as_n (arg 1 v)) (as_iid (arg 2 v))
  else if k =? 4 then GetResponseWithBlock (as_bytes (arg 1 v)) (as_n (arg 2 v)) (as_iid (arg 3 v))
  else if k =? 5 then GetResponseLastBlock (as_bytes (arg 1 v)) (as_n (arg 2 v)) (as_iid (arg 3 v))
  else if k =? 6 then GetResponseLastBlockWithError (as_n (arg 1 v)) (as_n (arg 2 v)) (as_iid (arg 3 v))
  else if k =? 7 then SetRequestNormal (as_desc (arg 1 v)) (as_bytes (arg 2 v)) (as_iid (arg 3 v))
  else if k =? 8 then SetResponseNormal (as_n (arg 1 v)) (as_iid (arg 2 v))
  else if k =? 9 then ActionRequestNormal (as_desc (arg 1 v)) (as_optbytes (arg 2 v)) (as_iid (arg 3 v))
  else if k =? 10 then ActionResponseNormal (as_n (arg 1 v)) (as_iid (arg 2 v))
  else if k =? 11 then ActionResponseNormalWithData (as_n (arg 1 v)) (as_bytes (arg 2 v)) (as_iid (arg 3 v))
  else if k =? 12 then ActionResponseNormalWithError (as_n (arg 1 v)) (as_n (arg 2 v)) (as_iid (arg 3 v))
  else if k =? 13 then DataNotification (as_liid (arg 1 v)) (as_optdt (arg 2 v)) (as_bytes (arg 3 v))
  else if k =? 14 then ExceptionResponse (as_n (arg 1 v)) (as_n (arg 2 v)) (as_optn (arg 3 v))
  else if k =? 15 then ConfirmedServiceError (as_n (arg 1 v)) (as_n (arg 2 v))
  else if k =? 16 then InitiateRequest (as_bools (arg 1 v)) (as_optn (arg 2 v)) (as_n (arg 3 v)) (as_n (arg 4 v)) (as_b (arg 5 v)) (as_optbytes (arg 6 v))
  else if k =? 17 then InitiateResponse (as_bools (arg 1 v)) (as_n (arg 2 v)) (as_n (arg 3 v)) (as_n (arg 4 v))
  else if k =? 18 then GlobalCipherInitiateRequest (as_sc (arg 1 v)) (as_n (arg 2 v)) (as_bytes (arg 3 v))
  else if k =? 19 then GlobalCipherInitiateResponse (as_sc (arg 1 v)) (as_n (arg 2 v)) (as_bytes (arg 3 v))
  else if k =? 20 then GeneralGlobalCipher (as_bytes (arg 1 v)) (as_sc (arg 2 v)) (as_n (arg 3 v)) (as_bytes (arg 4 v))
  else NoneValue.

(* ---- ACSE values ---- *)
Definition v_optb (o : option bytes) : V := v_opt VBytes o.
Definition as_optapdu (v : V) : option apdu := if is_none v then None else Some (as_apdu v).
Definition as_aarq (v : V) : aarq :=
  {| q_user := as_apdu (arg 0 v); q_title := as_optbytes (arg 1 v); q_cert := as_optbytes (arg 2 v); q_auth := as_optn (arg 3 v);
     q_ciphered := as_b (arg 4 v); q_value := as_optbytes (arg 5 v); q_calling_ae_inv := as_optbytes (arg 6 v);
     q_called_ap_title := as_optbytes (arg 7 v); q_called_ae_qual := as_optbytes (arg 8 v); q_called_ap_inv := as_optbytes (arg 9 v);
     q_called_ae_inv := as_optbytes (arg 10 v); q_calling_ap_inv := as_optbytes (arg 11 v); q_impl := as_optbytes (arg 12 v) |}.
Definition v_aarq (a : aarq) : V :=
  VList [v_apdu (q_user a); v_optb (q_title a); v_optb (q_cert a); v_optn (q_auth a); VBool (q_ciphered a); v_optb (q_value a);
         v_optb (q_calling_ae_inv a); v_optb (q_called_ap_title a); v_optb (q_called_ae_qual a); v_optb (q_called_ap_inv a);
         v_optb (q_called_ae_inv a); v_optb (q_calling_ap_inv a); v_optb (q_impl a)].
Definition as_aare (v : V) : aare :=
  {| e_result := as_n (arg 0 v); e_diag := (as_b (arg 0 (arg 1 v)), as_n (arg 1 (arg 1 v))); e_ciphered := as_b (arg 2 v);
     e_auth := as_optn (arg 3 v); e_title := as_optbytes (arg 4 v); e_cert := as_optbytes (arg 5 v); e_value := as_optbytes (arg 6 v);
     e_user := as_optapdu (arg 7 v); e_impl := as_optbytes (arg 8 v); e_ap_inv := as_optbytes (arg 9 v); e_ae_inv := as_optbytes (arg 10 v) |}.
Definition v_aare (a : aare) : V :=
  VList [VN (e_result a); VList [VBool (fst (e_diag a)); VN (snd (e_diag a))]; VBool (e_ciphered a); v_optn (e_auth a); v_optb (e_title a);
         v_optb (e_cert a); v_optb (e_value a); v_opt v_apdu (e_user a); v_optb (e_impl a); v_optb (e_ap_inv a); v_optb (e_ae_inv a)].
Definition as_release (v : V) : release := {| r_reason := as_optn (arg 0 v); r_user := as_optapdu (arg 1 v) |}.
Definition v_release (a : release) : V := VList [v_optn (r_reason a); v_opt v_apdu (r_user a)].

(* ---- the DLMS connection (C04, C06, C07, C08) ---- *)
Definition as_cfg (v : V) : cfg :=
  {| k_title := as_bytes (arg 0 v); k_ek := as_optbytes (arg 1 v); k_ak := as_optbytes (arg 2 v); k_suite := as_n (arg 3 v);
     k_pre := as_b (arg 4 v); k_challenge := as_bytes (arg 5 v) |}.
Definition as_cst (v : V) : cst :=
  {| c_state := as_n (arg 0 v); c_cic := as_n (arg 1 v); c_mic := as_n (arg 2 v); c_mtitle := as_optbytes (arg 3 v); c_auth := as_optn (arg 4 v);
     c_mchallenge := as_optbytes (arg 5 v); c_conf := as_bools (arg 6 v); c_maxpdu := as_n (arg 7 v) |}.
Definition v_cst (c : cst) : V :=
  VList [VN (c_state c); VN (c_cic c); VN (c_mic c); v_optb (c_mtitle c); v_optn (c_auth c); v_optb (c_mchallenge c); v_bools (c_conf c); VN (c_maxpdu c)].
Definition as_msg (v : V) : msg :=
  let t := as_n (arg 0 v) in let x := arg 1 v in
  if t =? 1 then MAarq (as_aarq x) else if t =? 2 then MAare (as_aare x) else if t =? 3 then MRlrq (as_release x)
  else if t =? 4 then MRlre (as_release x) else MX (as_apdu x).
Definition v_msg (m : msg) : V :=
  match m with
  | MX a => VList [VN 0; v_apdu a] | MAarq q => VList [VN 1; v_aarq q] | MAare e => VList [VN 2; v_aare e]
  | MRlrq r => VList [VN 3; v_release r] | MRlre r => VList [VN 4; v_release r]
  end.
(* one scripted step: ["send", msg] | ["recv", bytes] | ["hls_reply"]; answers [result, connection afterwards] *)
Definition dlms_step (k : cfg) (c : cst) (o : V) : V * cst :=
  let t := as_n (arg 0 o) in
  if t =? 0 then let '(r, c') := dlms_send aes_encrypt k c (as_msg (arg 1 o)) in (v_res VBytes r, c')
  else if t =? 1 then let '(r, c') := dlms_next_event aes_encrypt k c (as_bytes (arg 1 o)) in (v_res v_msg r, c')
  else let '(r, c') := dlms_hls_reply aes_encrypt k c in (v_res VBytes r, c').
Fixpoint dlms_script (k : cfg) (c : cst) (ops : list V) : list V :=
  match ops with
  | [] => []
  | o :: r => let '(out, c') := dlms_step k c o in VList [out; v_cst c'] :: dlms_script k c' r
  end.

Definition run (op : N) (a : V) : V :=
  match op with
  (* ---- crc.py model ---- *)
  | 1 (* crc_table_entry *) => VN (tab (as_n a))
  | 2 (* crc_reverse_byte *) => VN (reverse_byte (as_n a))
  | 3 (* crc_calculate_from *) => VN (calculate_from (as_n (arg 0 a)) (as_bytes (arg 1 a)))
  | 4 (* crc_calculate_for *) => VBytes (calculate_for (as_bytes (arg 0 a)) (as_b (arg 1 a)))
  (* ---- CRC-16/X-25 reference ---- *)
  | 5 (* spec_x25_fcs *) => VBytes (x25_fcs (as_bytes a))
  | 6 (* spec_x25_reg *) => VN (x25_reg (as_bytes a))
  (* ---- bit-packed fields (C20) ---- *)
  | 20 (* conf_to_bytes *) => v_res VBytes (conf_to_bytes (as_bools a))
  | 21 (* conf_from_bytes *) => v_bools (conf_from_bytes (as_bytes a))
  | 22 (* spec_conformance *) => VBytes (std_conformance (as_bools a))
  | 23 (* spec_conformance_decode *) => v_bools (std_conformance_decode (as_n a))
  | 24 (* sc_from_bytes *) => v_res v_sc (sc_from_bytes (as_bytes a))
  | 25 (* sc_make_to_bytes *) =>
      v_res VBytes (do x <- sc_make (as_n (arg 0 a)) (as_b (arg 1 a)) (as_b (arg 2 a)) (as_b (arg 3 a)) (as_b (arg 4 a));
                    sc_to_bytes x)
  | 26 (* iid_from_bytes *) => v_res v_iid (iid_from_bytes (as_bytes a))
  | 27 (* iid_to_bytes *) => v_res VBytes (iid_to_bytes (as_n (arg 0 a), as_b (arg 1 a), as_b (arg 2 a)))
  | 28 (* liid_from_bytes *) => v_res v_liid (liid_from_bytes (as_bytes a))
  | 29 (* liid_to_bytes *) =>
      v_res VBytes (liid_to_bytes (as_n (arg 0 a), as_b (arg 1 a), as_b (arg 2 a), as_b (arg 3 a), as_b (arg 4 a)))
  | 30 (* cstat_from_bytes *) => v_res v_cstat (cstat_from_bytes (as_bytes a))
  | 31 (* cstat_to_bytes *) =>
      v_res VBytes (cstat_to_bytes (as_b (arg 0 a), as_b (arg 1 a), as_b (arg 2 a), as_b (arg 3 a), as_b (arg 4 a)))
  | 32 (* ictrl_make_to_bytes *) =>
      v_res VBytes (do x <- ictrl_make (as_z (arg 0 a)) (as_z (arg 1 a)) (as_b (arg 2 a)); ictrl_to_bytes x)
  | 33 (* ictrl_from_bytes *) => v_res v_ictrl (ictrl_from_bytes (as_bytes a))
  | 34 (* rr_make_to_bytes *) => v_res VBytes (do x <- rr_make (as_z a); rr_to_bytes x)
  | 35 (* rr_from_bytes *) => v_res VN (rr_from_bytes (as_bytes a))
  | 36 (* uictrl_to_bytes *) => v_res VBytes (uictrl_to_bytes (as_b a))
  | 37 (* uictrl_from_bytes *) => v_res VBool (uictrl_from_bytes (as_bytes a))
  | 38 (* fixed_ctrl_bytes *) => VBytes [snrm_ctrl; ua_ctrl; disc_ctrl]
  | 39 (* fmt_make_to_bytes *) => v_res VBytes (do x <- fmt_make (as_z (arg 0 a)) (as_b (arg 1 a)); fmt_to_bytes x)
  | 40 (* fmt_from_bytes *) => v_res v_fmt (fmt_from_bytes (as_bytes a))
  | 41 (* obis_to_bytes *) => v_res VBytes (obis_to_bytes (as_ns a))
  | 42 (* obis_from_bytes *) => v_res v_ns (obis_from_bytes (as_bytes a))
  | 43 (* obis_dotted *) => VBytes (obis_dotted (as_ns a))
  | 44 (* obis_from_dotted *) => v_res v_ns (obis_from_dotted (as_bytes a))
  | 45 (* spec_ctrl *) =>
      (* kind: 0 I, 1 RR, 2 SNRM, 3 UA, 4 DISC, 5 UI; args ssn rsn p *)
      let k := as_n (arg 0 a) in let ssn := as_n (arg 1 a) in let rsn := as_n (arg 2 a) in let p := as_b (arg 3 a) in
      VN (if k =? 0 then std_ctrl_I ssn rsn p else if k =? 1 then std_ctrl_RR rsn p else
          if k =? 2 then std_ctrl_SNRM p else if k =? 3 then std_ctrl_UA p else
          if k =? 4 then std_ctrl_DISC p else std_ctrl_UI p)
  | 46 (* spec_format *) => VBytes (std_format (as_n (arg 0 a)) (as_b (arg 1 a)))
  (* ---- HDLC addresses (C13) ---- *)
  | 50 (* addr_make_to_bytes *) =>
      v_res VBytes (do x <- addr_make (as_z (arg 0 a)) (as_optz (arg 1 a)) (as_b (arg 2 a)); Ok (addr_to_bytes x))
  | 51 (* find_addresses *) =>
      v_res (fun ds => VList [v_found (fst ds); v_found (snd ds)]) (find_addresses (as_bytes a))
  | 52 (* destination_from_bytes *) => v_res v_addr (destination_from_bytes (as_bytes (arg 0 a)) (as_b (arg 1 a)))
  | 53 (* source_from_bytes *) => v_res v_addr (source_from_bytes (as_bytes (arg 0 a)) (as_b (arg 1 a)))
  | 54 (* spec_addr *) =>
      VBytes (if as_b (arg 2 a) then std_server (as_n (arg 0 a)) (as_optn (arg 1 a)) else std_client (as_n (arg 0 a)))
  (* ---- IP wrapper and TCP transport (C17) ---- *)
  | 60 (* whdr_to_bytes *) => v_res VBytes (whdr_to_bytes (as_n (arg 0 a), as_n (arg 1 a), as_n (arg 2 a), as_n (arg 3 a)))
  | 61 (* whdr_from_bytes *) => v_res v_whdr (whdr_from_bytes (as_bytes a))
  | 62 (* wpdu_from_bytes *) => v_res (fun x => VList [VBytes (fst x); v_whdr (snd x)]) (wpdu_from_bytes (as_bytes a))
  | 63 (* tcp_wrap *) => v_res VBytes (tcp_wrap (as_n (arg 0 a)) (as_n (arg 1 a)) (as_bytes (arg 2 a)))
  | 64 (* tcp_recv *) =>
      let '(r, (rest, _)) := tcp_recv (as_bytes (arg 0 a), as_nats (arg 1 a)) in VList [v_res VBytes r; VBytes rest]
  | 66 (* tcp_recv_n *) =>
      let '(rs, (rest, _)) := tcp_recv_n (N.to_nat (as_n (arg 2 a))) (as_bytes (arg 0 a), as_nats (arg 1 a)) in
      VList [VList (map (v_res VBytes) rs); VBytes rest]
  | 67 (* tcp_session *) =>
      let '(rs, ((rest, _), written)) :=
        tcp_session (as_n (arg 0 a)) (as_n (arg 1 a)) (map as_bytes (as_list (arg 2 a)))
                    ((as_bytes (arg 3 a), as_nats (arg 4 a)), []) in
      VList [VList (map (v_res VBytes) rs); VBytes rest; VList (map VBytes written)]
  | 65 (* spec_std_header *) => VBytes (std_header (as_n (arg 0 a)) (as_n (arg 1 a)) (as_n (arg 2 a)) (as_n (arg 3 a)))
  (* ---- date-time codec (C16) ---- *)
  | 70 (* datetime_to_bytes *) => v_res VBytes (datetime_to_bytes (as_dtime (arg 0 a)) (as_opt_cstat (arg 1 a)))
  | 71 (* datetime_from_bytes *) =>
      v_res (fun x => VList [v_dtime (fst x); v_cstat (snd x)]) (datetime_from_bytes (as_bytes a))
  | 72 (* date_from_bytes *) => v_res v_date3 (date_from_bytes (as_bytes a))
  | 73 (* time_from_bytes *) => v_res v_time4 (time_from_bytes (as_bytes a))
  | 74 (* date_to_bytes *) => v_res VBytes (date_to_bytes (as_n (arg 0 a), as_n (arg 1 a), as_n (arg 2 a)))
  | 75 (* time_to_bytes *) => v_res VBytes (time_to_bytes (as_n (arg 0 a), as_n (arg 1 a), as_n (arg 2 a), as_n (arg 3 a)))
  | 76 (* spec_datetime *) => VBytes (std_datetime (as_dtime (arg 0 a)) (as_cstat (arg 1 a)))
  (* ---- DLMS data codec (C14) ---- *)
  | 80 (* parse_as_dlms_data *) => v_res v_pv (parse_as_dlms_data (as_bytes a))
  | 81 (* axdr_get_len *) => v_res (fun x => VList [VN (fst x); VBytes (snd x)]) (get_len (as_bytes a))
  | 82 (* decode_variable_integer *) =>
      v_res (fun x => VList [VN (fst x); VBytes (snd x)]) (decode_variable_integer (as_bytes a))
  | 83 (* encode_variable_integer *) => v_res VBytes (encode_variable_integer (as_n a))
  | 84 (* enc_octet_string *) => v_res VBytes (enc_octet_string (as_bytes a))
  | 85 (* enc_double_long_unsigned *) => v_res VBytes (enc_double_long_unsigned (as_n a))
  | 86 (* enc_integer *) => v_res VBytes (enc_integer (as_z a))
  | 87 (* enc_unsigned_long *) => v_res VBytes (enc_unsigned_long (as_n a))
  | 88 (* enc_capture_object *) =>
      v_res VBytes (enc_capture_object (as_n (arg 0 a)) (as_bytes (arg 1 a)) (as_z (arg 2 a)) (as_n (arg 3 a)))
  | 89 (* spec_encode *) => VBytes (std_encode (as_data a))
  | 90 (* spec_py *) => v_pv (of_spec (py (as_data a)))
  | 91 (* spec_data_ok *) => VBool (data_ok (as_data a))
  (* ---- HDLC frames (C09) ---- *)
  | 100 (* frame_make_to_bytes *) =>
      (* kind dest src payload segmented final ssn rsn *)
      (* the address objects are constructed first (validators run), then the frame *)
      let mk (v : V) := addr_make (as_z (arg 0 v)) (as_optz (arg 1 v)) (as_b (arg 2 v)) in
      v_res VBytes (do d <- mk (arg 1 a); do s <- mk (arg 2 a);
                    do f <- frame_make (as_kind (arg 0 a)) d s (as_optbytes (arg 3 a))
                                        (as_b (arg 4 a)) (as_b (arg 5 a)) (as_z (arg 6 a)) (as_z (arg 7 a));
                    frame_to_bytes (as_kind (arg 0 a)) f)
  | 101 (* frame_from_bytes *) => v_res v_frame (frame_from_bytes (as_kind (arg 0 a)) (as_bytes (arg 1 a)))
  | 102 (* spec_std_frame *) =>
      let f := {| f_dest := as_addr (arg 1 a); f_src := as_addr (arg 2 a); f_payload := as_optbytes (arg 3 a);
                  f_segmented := as_b (arg 4 a); f_final := as_b (arg 5 a);
                  f_ssn := as_n (arg 6 a); f_rsn := as_n (arg 7 a) |} in
      VList [VBytes (std_frame (as_kind (arg 0 a)) f); VBool (std_length (as_kind (arg 0 a)) f <=? 2047)]
  (* ---- HDLC link and receive path (C11, C10) ---- *)
  | 110 (* link_step *) =>
      let l := as_link a 0 in
      let d := if as_n (arg 5 a) =? 0 then HdlcLinkSpec.DSend else HdlcLinkSpec.DRecv in
      let '(r, l') := link_step l d (as_kind (arg 6 a)) (as_n (arg 7 a)) (as_n (arg 8 a)) in
      VList [v_res (fun _ => VBool true) r; VList (v_link l')]
  | 111 (* conn_script *) => VList (script_run conn_init (as_list a))
  | 112 (* spec_nrm *) =>
      let d := if as_n (arg 1 a) =? 0 then HdlcLinkSpec.DSend else HdlcLinkSpec.DRecv in
      VList [v_optn (nrm_must (as_n (arg 0 a)) d (as_kind (arg 2 a))); v_optn (nrm_may (as_n (arg 0 a)) d (as_kind (arg 2 a)))]
  (* ---- profile buffers and object lists (C15) ---- *)
  | 120 (* profile_parse_entries *) =>
      v_res (fun rows => VList (map (fun r => VList (map v_cell r)) rows))
            (parse_entries (as_bools (arg 0 a)) (as_z (arg 1 a)) (as_pv (arg 2 a)))
  | 121 (* profile_parse_bytes *) =>
      v_res (fun rows => VList (map (fun r => VList (map v_cell r)) rows))
            (profile_parse_bytes (as_bools (arg 0 a)) (as_z (arg 1 a)) (as_bytes (arg 2 a)))
  | 122 (* parse_access_right *) => v_ns (parse_access_right (as_n a))
  | 123 (* parse_object_list *) => v_res (fun l => VList (map v_object l)) (parse_object_list (as_pv a))
  | 124 (* add_minutes *) => v_res v_dtime (add_minutes (as_dtime (arg 0 a)) (as_z (arg 1 a)))
  (* ---- association state machine (C03) ---- *)
  | 130 (* assoc_step *) =>
      (* pre state dir kind a b proof *)
      let e := mk (as_n (arg 3 a)) (as_b (arg 4 a)) (as_b (arg 5 a)) (as_n (arg 6 a)) in
      let d := if as_n (arg 2 a) =? 0 then AssocSpec.DSend else AssocSpec.DRecv in
      let '(r, s') := AssocSpec.step (as_b (arg 0 a)) (as_n (arg 1 a)) d e in
      VList [v_res (fun _ => VBool true) r; VN s']
  | 131 (* assoc_spec *) =>
      let e := mk (as_n (arg 2 a)) (as_b (arg 3 a)) (as_b (arg 4 a)) (as_n (arg 5 a)) in
      let d := if as_n (arg 1 a) =? 0 then AssocSpec.DSend else AssocSpec.DRecv in
      VList [v_optn (AssocSpec.must (as_n (arg 0 a)) d e); v_optn (AssocSpec.may (as_n (arg 0 a)) d e)]
  (* ---- serial HDLC transport (C18) ---- *)
  | 140 (* transport_script *) =>
      let t0 := {| t_conn := conn_init; t_out := []; t_client := as_addr (arg 0 a); t_server := as_addr (arg 1 a); t_max := 128;
                   t_ser := {| pending := map as_bytes (as_list (arg 2 a)); readable := []; sched := as_nats (arg 3 a); written := [] |} |} in
      let '(outs, t) := t_script t0 (as_list (arg 4 a)) in
      VList [VList outs; VList (map VBytes (written (t_ser t))); VList (v_link (c_link (t_conn t)));
             v_nat (length (c_buf (t_conn t))); v_nat (length (t_out t))]
  (* ---- client GET/SET/ACTION (C19) ---- *)
  | 150 (* client_script *) =>
      (* pre; responses; ops *)
      let c0 := {| cl_state := 2; cl_pre := as_b (arg 0 a); cl_io := map as_resp (as_list (arg 1 a)); cl_buf := []; cl_sent := [] |} in
      let '(outs, c) := cl_script c0 (as_list (arg 2 a)) in
      VList [VList outs; VN (cl_state c); VList (map (fun x => let '(k, b, i) := x in VList [VN k; VN b; VN i]) (cl_sent c));
             v_nat (length (cl_io c))]
  (* ---- AES-GCM protection (C05) ---- *)
  | 160 (* sec_encrypt *) =>
      v_res VBytes (sec_encrypt aes_encrypt (as_sc (arg 0 a)) (as_bytes (arg 1 a)) (as_n (arg 2 a)) (as_bytes (arg 3 a))
                                (as_bytes (arg 4 a)) (as_bytes (arg 5 a)))
  | 161 (* sec_decrypt *) =>
      v_res VBytes (sec_decrypt aes_encrypt (as_sc (arg 0 a)) (as_bytes (arg 1 a)) (as_n (arg 2 a)) (as_bytes (arg 3 a))
                                (as_bytes (arg 4 a)) (as_bytes (arg 5 a)))
  | 162 (* sec_gmac *) =>
      v_res VBytes (sec_gmac aes_encrypt (as_sc (arg 0 a)) (as_bytes (arg 1 a)) (as_n (arg 2 a)) (as_bytes (arg 3 a))
                             (as_bytes (arg 4 a)) (as_bytes (arg 5 a)))
  | 163 (* sec_wrap_key *) => v_res VBytes (sec_wrap_key aes_encrypt (as_sc (arg 0 a)) (as_bytes (arg 1 a)) (as_bytes (arg 2 a)))
  | 164 (* sec_unwrap_key *) => v_res VBytes (sec_unwrap_key aes_decrypt (as_sc (arg 0 a)) (as_bytes (arg 1 a)) (as_bytes (arg 2 a)))
  | 165 (* spec_gcm *) =>
      let '(c, t) := gcm_encrypt (aes_encrypt (as_bytes (arg 0 a))) (as_bytes (arg 1 a)) (as_bytes (arg 2 a)) (as_bytes (arg 3 a)) in
      VList [VBytes c; VBytes t]
  (* ---- xDLMS APDU codecs (C01) ---- *)
  | 170 (* apdu_to_bytes *) => v_res VBytes (apdu_to_bytes (as_apdu a))
  | 171 (* xdlms_from_bytes *) => v_res v_apdu (xdlms_from_bytes (as_bytes a))
  | 172 (* spec_apdu *) => let x := as_apdu a in if wf_apdu x then VBytes (std_apdu x) else VNone
  (* ---- ACSE APDUs (C02) ---- *)
  | 180 (* aarq_to_bytes *) => v_res VBytes (aarq_to_bytes (as_aarq a))
  | 181 (* aarq_from_bytes *) => v_res v_aarq (aarq_from_bytes (as_bytes a))
  | 182 (* aare_to_bytes *) => v_res VBytes (aare_to_bytes (as_aare a))
  | 183 (* aare_from_bytes *) => v_res v_aare (aare_from_bytes (as_bytes a))
  | 184 (* rlrq_to_bytes *) => v_res VBytes (rlrq_to_bytes (as_release a))
  | 185 (* rlrq_from_bytes *) => v_res v_release (rlrq_from_bytes (as_bytes a))
  | 186 (* rlre_to_bytes *) => v_res VBytes (rlre_to_bytes (as_release a))
  | 187 (* rlre_from_bytes *) => v_res v_release (rlre_from_bytes (as_bytes a))
  | 190 (* spec_aarq *) => let x := as_aarq a in if wf_aarq x then VBytes (std_aarq x) else VNone
  | 191 (* spec_aare *) => let x := as_aare a in if wf_aare x then VBytes (std_aare x) else VNone
  | 192 (* spec_rlrq *) => let x := as_release a in if wf_release GenEnums.enum_ReleaseRequestReason x then VBytes (std_release 98 x) else VNone
  | 193 (* spec_rlre *) => let x := as_release a in if wf_release GenEnums.enum_ReleaseResponseReason x then VBytes (std_release 99 x) else VNone
  | 200 (* dlms_script *) => VList (dlms_script (as_cfg (arg 0 a)) (as_cst (arg 1 a)) (as_list (arg 2 a)))
  | 201 (* msg_from_bytes *) => v_res v_msg (msg_from_bytes (as_bytes a))
  | _ => bad_args
  end.
