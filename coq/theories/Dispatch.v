(* Single entry point through which the harness runs model and spec functions:
   [run opcode argument].  Extracted to OCaml (bin/dlms_model) and also evaluated in the
   kernel by generated cases files.  Opcode names are parsed from the comments below by
   harness/lib.py — keep the format  "| <n> (* <name> *) =>". *)
From Dlms Require Import Base CrcModel CrcSpec.

Definition run (op : N) (a : V) : V :=
  match op with
  (* ---- crc.py model ---- *)
  | 1 (* crc_table_entry *) => VN (tab (as_n a))
  | 2 (* crc_reverse_byte *) => VN (reverse_byte (as_n a))
  | 3 (* crc_calculate_from *) => VN (calculate_from (as_n (arg 0 a)) (as_bytes (arg 1 a)))
  | 4 (* crc_calculate_for *) => VBytes (calculate_for (as_bytes (arg 0 a)) (as_b (arg 1 a)))
  (* ---- CRC-16/X-25 reference ---- *)
  | 5 (* spec_x25_fcs *) => VBytes (x25_fcs (as_bytes a))
  | 6 (* spec_x25_reg *) => VN (x25_reg (as_bytes a))
  | _ => bad_args
  end.
