(* Model of dlms_cosem/hdlc/state.py (HdlcConnectionState over the generated table) and
   dlms_cosem/hdlc/connection.py (HdlcConnection.send / handle_sequence_numbers / receive_data /
   next_event / _find_frame / _tidy_buffer, HdlcFrameFactory, PARSE_METHODS), as of fix commit
   6c7db20 (send guarded by SEND_STATES).  No proofs here. *)
From Dlms Require Import Base FrameModel.
From Dlms.Gen Require GenHdlcState.

(* states: 0 NOT_CONNECTED, 1 IDLE, 2 AWAITING_RESPONSE, 3 AWAITING_CONNECTION, 4 AWAITING_DISCONNECT, 5 CLOSED *)
Record link := { l_state : N; client_ssn : N; client_rsn : N; server_ssn : N; server_rsn : N }.
Definition link_init : link :=
  {| l_state := GenHdlcState.hdlc_initial_state; client_ssn := 0; client_rsn := 0; server_ssn := 0; server_rsn := 0 |}.

Definition kind_code (k : fkind) : N :=
  match k with KSnrm => 0 | KUa => 1 | KRr => 2 | KInfo => 3 | KDisc => 4 | KUi => 5 end.
Definition mem_n (x : N) (l : list N) : bool := existsb (N.eqb x) l.
Fixpoint assoc2 (s k : N) (t : list ((N * N) * N)) : option N :=
  match t with
  | [] => None
  | ((s', k'), v) :: r => if (s =? s') && (k =? k') then Some v else assoc2 s k r
  end.
(* HdlcConnectionState._transition_state *)
Definition process_frame (l : link) (k : fkind) : res link :=
  match assoc2 (l_state l) (kind_code k) GenHdlcState.hdlc_transitions with
  | None => Err EProto
  | Some s' => Ok {| l_state := s'; client_ssn := client_ssn l; client_rsn := client_rsn l;
                     server_ssn := server_ssn l; server_rsn := server_rsn l |}
  end.
Definition wrap8 (x : N) : N := if 7 <? x then 0 else x.
(* HdlcConnection.handle_sequence_numbers *)
Definition handle_sequence_numbers (l : link) (fssn frsn : N) (response : bool) : res link :=
  if negb response then
    if negb (fssn =? server_ssn l) || negb (frsn =? server_rsn l) then Err EProto else
    Ok {| l_state := l_state l; client_ssn := wrap8 (client_ssn l); client_rsn := wrap8 (client_rsn l + 1);
          server_ssn := wrap8 (server_ssn l + 1); server_rsn := wrap8 (server_rsn l) |}
  else
    if negb (fssn =? client_ssn l) || negb (frsn =? client_rsn l) then Err EProto else
    Ok {| l_state := l_state l; client_ssn := wrap8 (client_ssn l + 1); client_rsn := wrap8 (client_rsn l);
          server_ssn := wrap8 (server_ssn l); server_rsn := wrap8 (server_rsn l + 1) |}.

(* the state part of HdlcConnection.send: returns the link even when it raises (the state may
   already have advanced when the sequence numbers are refused) *)
Definition link_send (l : link) (k : fkind) (ssn rsn : N) : res unit * link :=
  if negb (mem_n (l_state l) GenHdlcState.hdlc_send_states) then (Err EProto, l) else
  match process_frame l k with
  | Err e => (Err e, l)
  | Ok l1 =>
      match k with
      | KInfo => match handle_sequence_numbers l1 ssn rsn false with
                 | Err e => (Err e, l1)
                 | Ok l2 => (Ok tt, l2)
                 end
      | _ => (Ok tt, l1)
      end
  end.
(* the state part of next_event once a frame of kind k has been parsed *)
Definition link_on_frame (l : link) (k : fkind) (ssn rsn : N) : res unit * link :=
  match process_frame l k with
  | Err e => (Err e, l)
  | Ok l1 =>
      match k with
      | KInfo => match handle_sequence_numbers l1 ssn rsn true with
                 | Err e => (Err e, l1)
                 | Ok l2 => (Ok tt, l2)
                 end
      | _ => (Ok tt, l1)
      end
  end.
(* which parser PARSE_METHODS selects in the current state *)
Definition parse_kind (l : link) : option fkind :=
  match find (fun e => fst e =? l_state l) GenHdlcState.hdlc_parse_methods with
  | Some (_, 1) => Some KUa
  | Some (_, 3) => Some KInfo
  | _ => None
  end.
(* delivery of an already framed frame of kind k (abstracting from bytes): only the kind the
   state's parser understands can be recognised at all *)
Definition link_deliver (l : link) (k : fkind) (ssn rsn : N) : res unit * link :=
  match parse_kind l with
  | None => (Err ERefused, l)                   (* KeyError in PARSE_METHODS *)
  | Some pk => if kind_code pk =? kind_code k then link_on_frame l k ssn rsn else (Err ERefused, l)
  end.

(* ---------- the byte level ---------- *)
Record conn := { c_link : link; c_buf : bytes; c_pos : nat }.
Definition conn_init : conn := {| c_link := link_init; c_buf := []; c_pos := 1 |}.

Definition conn_send (c : conn) (k : fkind) (f : frame) : res bytes * conn :=
  let '(r, l') := link_send (c_link c) k (f_ssn f) (f_rsn f) in
  let c' := {| c_link := l'; c_buf := c_buf c; c_pos := c_pos c |} in
  match r with
  | Err e => (Err e, c')
  | Ok _ => (frame_to_bytes k f, c')
  end.
Definition receive_data (c : conn) (data : bytes) : conn :=
  {| c_link := c_link c; c_buf := c_buf c ++ data; c_pos := c_pos c |}.

(* bytearray.index(0x7e, start) *)
Fixpoint index_from (i : nat) (l : bytes) (start : nat) : option nat :=
  match l with
  | [] => None
  | x :: r => if Nat.leb start i && (x =? 126) then Some i else index_from (S i) r start
  end.
(* HdlcConnection._find_frame *)
Definition find_frame (c : conn) : option bytes * conn :=
  match index_from 0 (c_buf c) (c_pos c) with
  | None => (None, c)
  | Some i =>
      let frame_end := S i in
      let fb := firstn frame_end (c_buf c) in
      let fb := match fb with 126 :: _ => fb | _ => 126 :: fb end in
      (Some fb, {| c_link := c_link c; c_buf := c_buf c; c_pos := frame_end |})
  end.

Inductive event := ENeedData | EFrame (k : fkind) (f : frame) | ERaise (e : N).

(* HdlcConnection.next_event *)
Definition next_event (c : conn) : event * conn :=
  match find_frame c with
  | (None, c1) => (ENeedData, c1)
  | (Some fb, c1) =>
      match parse_kind (c_link c1) with
      | None => (ERaise ERefused, c1)                       (* KeyError *)
      | Some pk =>
          match frame_from_bytes pk fb with
          | Err e => if e =? EParse then (ENeedData, c1) else (ERaise e, c1)
          | Ok f =>
              match process_frame (c_link c1) pk with
              | Err e => (ERaise e, c1)
              | Ok l1 =>
                  (* _tidy_buffer *)
                  let c2 := {| c_link := l1; c_buf := skipn (c_pos c1) (c_buf c1); c_pos := 1 |} in
                  match pk with
                  | KInfo =>
                      match handle_sequence_numbers l1 (f_ssn f) (f_rsn f) true with
                      | Err e => (ERaise e, c2)
                      | Ok l2 => (EFrame pk f, {| c_link := l2; c_buf := c_buf c2; c_pos := 1 |})
                      end
                  | _ => (EFrame pk f, c2)
                  end
              end
          end
      end
  end.
