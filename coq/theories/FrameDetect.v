(* C09, corruption: a frame that carries a correct frame check sequence, hit by any error burst of at most 16 bits
   (in particular any single-bit error) between its flags, no longer carries a correct one - and is therefore refused
   by every frame parser. *)
From Dlms Require Import Base Sweep CrcSpec CrcModel CrcProofs FrameModel FrameProofs.
From Dlms Require Import CrcDetect.
From Coq Require Import ZifyBool ZifyN.

Lemma xor_bytes_app a b c d : length a = length c -> xor_bytes (a ++ b) (c ++ d) = xor_bytes a c ++ xor_bytes b d.
Proof.
  revert c. induction a as [|x a IH]; intros [|y c] H; try discriminate; [reflexivity|].
  cbn [app xor_bytes]. f_equal. apply IH. cbn in H. lia.
Qed.
Lemma xor_bytes_length a b : length a = length b -> length (xor_bytes a b) = length a.
Proof. revert b. induction a as [|x a IH]; intros [|y b] H; try discriminate; [reflexivity|]. cbn. f_equal. apply IH. cbn in H. lia. Qed.
Lemma xor_bytes_firstn n a b : firstn n (xor_bytes a b) = xor_bytes (firstn n a) (firstn n b).
Proof. revert a b. induction n as [|n IH]; intros [|x a] [|y b]; cbn; try reflexivity. f_equal. apply IH. Qed.
Lemma xor_bytes_skipn n a b : length a = length b -> skipn n (xor_bytes a b) = xor_bytes (skipn n a) (skipn n b).
Proof.
  revert a b. induction n as [|n IH]; intros [|x a] [|y b] H; cbn; try reflexivity; try discriminate.
  apply IH. cbn in H. lia.
Qed.
Lemma xor_bytes_slice i j a b : length a = length b -> slice i j (xor_bytes a b) = xor_bytes (slice i j a) (slice i j b).
Proof. intros H. unfold slice. rewrite xor_bytes_skipn by exact H. apply xor_bytes_firstn. Qed.
Lemma bytes_ok_slice i j (l : bytes) : bytes_ok l -> bytes_ok (slice i j l).
Proof.
  intros H. unfold slice, bytes_ok in *. rewrite <- (firstn_skipn i l) in H. apply Forall_app in H as [_ H].
  rewrite <- (firstn_skipn (j - i) (skipn i l)) in H. apply Forall_app in H as [H _]. exact H.
Qed.
Lemma slice_split {A} i j k (l : list A) : (i <= j)%nat -> (j <= k)%nat -> slice i k l = slice i j l ++ slice j k l.
Proof.
  intros H1 H2. unfold slice. replace (k - i)%nat with ((j - i) + (k - j))%nat by lia.
  rewrite <- (firstn_skipn (j - i) (skipn i l)) at 1. rewrite firstn_app, firstn_firstn.
  replace (Nat.min (j - i + (k - j)) (j - i)) with (j - i)%nat by lia. f_equal.
  rewrite firstn_length. rewrite skipn_skipn'. replace (i + (j - i))%nat with j by lia.
  destruct (Nat.le_ge_cases (j - i) (length (skipn i l))) as [L|L].
  - replace (j - i + (k - j) - Nat.min (j - i) (length (skipn i l)))%nat with (k - j)%nat by lia. reflexivity.
  - (* the list ends before j: both sides are empty *)
    rewrite skipn_length in L. rewrite (skipn_all2 (n := j)) by lia. rewrite !firstn_nil. reflexivity.
Qed.

(* the part of a frame between its flags: contents followed by the frame check sequence *)
Definition inner (b : bytes) : bytes := slice 1 (length b - 1) b.
Lemma inner_split b : (4 <= length b)%nat -> inner b = slice 1 (length b - 3) b ++ fcs_slice b.
Proof. intros H. unfold inner, fcs_slice. apply slice_split; lia. Qed.
Lemma valid_gives_residue b : (4 <= length b)%nat -> bytes_ok b -> fcs_valid b -> x25_reg (inner b) = x25_residue.
Proof.
  intros Hl Hb Hv. rewrite inner_split by exact Hl. rewrite Hv. unfold crc.
  apply appended_fcs_gives_residue. apply bytes_ok_slice. exact Hb.
Qed.

(* the error: a burst of at most 16 bits (pattern p, not zero, starting at bit s of the byte at offset 1 + before),
   flags untouched *)
Definition frame_error (before after : nat) (p s : N) : bytes := 0 :: burst_error before after p s ++ [0].
Theorem burst_error_breaks_fcs b before after p s :
  p < 65536 -> p <> 0 -> s < 8 -> length b = (before + after + 5)%nat ->
  bytes_ok b -> bytes_ok (xor_bytes b (frame_error before after p s)) ->
  fcs_valid b -> ~ fcs_valid (xor_bytes b (frame_error before after p s)).
Proof.
  intros Hp Hz Hs Hl Hb Hb' Hv Hv'.
  assert (Le : length (frame_error before after p s) = length b).
  { unfold frame_error. cbn [length]. rewrite app_length, burst_error_length. cbn [length]. lia. }
  assert (Lx : length (xor_bytes b (frame_error before after p s)) = length b) by (apply xor_bytes_length; symmetry; exact Le).
  pose proof (valid_gives_residue b ltac:(lia) Hb Hv) as R.
  pose proof (valid_gives_residue _ ltac:(rewrite Lx; lia) Hb' Hv') as R'.
  unfold inner in R'. rewrite Lx in R'. rewrite xor_bytes_slice in R' by (symmetry; exact Le). fold (inner b) in R'.
  assert (Es : slice 1 (length b - 1) (frame_error before after p s) = burst_error before after p s).
  { unfold frame_error, slice. cbn [skipn]. replace (length b - 1 - 1)%nat with (length (burst_error before after p s)) by (rewrite burst_error_length; lia).
    apply firstn_app_exact. reflexivity. }
  rewrite Es in R'.
  apply (corrupted_crc_differs (inner b) before after p s Hp Hz Hs).
  - unfold inner, slice. rewrite firstn_length, skipn_length. lia.
  - congruence.
Qed.

(* hence every parser refuses the damaged frame *)
Theorem burst_error_refused k b before after p s :
  p < 65536 -> p <> 0 -> s < 8 -> length b = (before + after + 5)%nat ->
  bytes_ok b -> bytes_ok (xor_bytes b (frame_error before after p s)) -> fcs_valid b ->
  exists e, frame_from_bytes k (xor_bytes b (frame_error before after p s)) = Err e.
Proof.
  intros Hp Hz Hs Hl Hb Hb' Hv.
  destruct (frame_from_bytes k (xor_bytes b (frame_error before after p s))) as [f|e] eqn:F; [|exists e; reflexivity].
  exfalso. destruct (frame_acceptance_sound _ _ _ F) as (_ & _ & _ & V).
  exact (burst_error_breaks_fcs b before after p s Hp Hz Hs Hl Hb Hb' Hv V).
Qed.
(* a single flipped bit is the burst with pattern 1 *)
Corollary single_bit_error_refused k b before after s :
  s < 8 -> length b = (before + after + 5)%nat ->
  bytes_ok b -> bytes_ok (xor_bytes b (frame_error before after 1 s)) -> fcs_valid b ->
  exists e, frame_from_bytes k (xor_bytes b (frame_error before after 1 s)) = Err e.
Proof. intros. apply burst_error_refused; try assumption; lia. Qed.

(* the burst may also end in the last bytes of the frame check sequence *)
Definition frame_error_end (before m : nat) (p s : N) : bytes := 0 :: burst_error_end before m p s ++ [0].
Theorem burst_error_at_end_refused k b before m p s :
  p < 65536 -> p <> 0 -> s < 8 -> (1 <= m <= 3)%nat -> p * 2 ^ s < 256 ^ N.of_nat m -> length b = (before + m + 2)%nat -> (4 <= length b)%nat ->
  bytes_ok b -> bytes_ok (xor_bytes b (frame_error_end before m p s)) -> fcs_valid b ->
  exists e, frame_from_bytes k (xor_bytes b (frame_error_end before m p s)) = Err e.
Proof.
  intros Hp Hz Hs Hm Hw Hl L4 Hb Hb' Hv.
  destruct (frame_from_bytes k (xor_bytes b (frame_error_end before m p s))) as [f|e] eqn:F; [|exists e; reflexivity].
  exfalso. destruct (frame_acceptance_sound _ _ _ F) as (_ & _ & _ & Hv').
  assert (Lb : length (burst_error_end before m p s) = (before + m)%nat).
  { unfold burst_error_end, burst_bytes. rewrite app_length, repeat_length, firstn_length. cbn [length]. lia. }
  assert (Le : length (frame_error_end before m p s) = length b).
  { unfold frame_error_end. cbn [length]. rewrite app_length, Lb. cbn [length]. lia. }
  assert (Lx : length (xor_bytes b (frame_error_end before m p s)) = length b) by (apply xor_bytes_length; symmetry; exact Le).
  pose proof (valid_gives_residue b L4 Hb Hv) as R.
  pose proof (valid_gives_residue _ ltac:(rewrite Lx; exact L4) Hb' Hv') as R'.
  unfold inner in R'. rewrite Lx in R'. rewrite xor_bytes_slice in R' by (symmetry; exact Le). fold (inner b) in R'.
  assert (Es : slice 1 (length b - 1) (frame_error_end before m p s) = burst_error_end before m p s).
  { unfold frame_error_end, slice. cbn [skipn]. replace (length b - 1 - 1)%nat with (length (burst_error_end before m p s)) by (rewrite Lb; lia).
    apply firstn_app_exact. reflexivity. }
  rewrite Es in R'.
  apply (corrupted_at_end_differs (inner b) before m p s Hp Hz Hs ltac:(lia) Hw).
  - unfold inner, slice. rewrite firstn_length, skipn_length. lia.
  - congruence.
Qed.
