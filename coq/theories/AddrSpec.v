(* Reference: HDLC extended addressing as DLMS uses it (Green Book 8.4.2.2 / ISO 13239 4.7.1):
   every address byte carries 7 address bits in bits 7..1; bit 0 is 0 on all bytes but the last.
   Client: one byte.  Server: one byte (upper address only), two bytes (one-byte upper and
   lower address), or four bytes (two-byte upper and lower address). *)
From Dlms Require Import Base AddrModel.

Definition seven (x : N) (last : bool) : N := 2 * (x mod 128) + (if last then 1 else 0).
Definition std_client (a : N) : bytes := [seven a true].
Definition std_server (upper : N) (lower : option N) : bytes :=
  match lower with
  | None => [seven upper true]                              (* only defined for upper <= 127 *)
  | Some l =>
      if (upper <=? 127) && (l <=? 127) then [seven upper false; seven l true]
      else [seven (upper / 128) false; seven upper false; seven (l / 128) false; seven l true]
  end.
(* decoding by extension bit *)
Definition std_decode (ab : bytes) : option (N * option N) :=
  match ab with
  | [a] => Some (a / 2, None)
  | [a; b] => Some (a / 2, Some (b / 2))
  | [a; b; c; d] => Some (a / 2 * 128 + b / 2, Some (c / 2 * 128 + d / 2))
  | _ => None
  end.

(* the accepted addresses for which the library's encoding exists in the standard
   (known finding F13a: a server upper address > 127 without a lower address has no 1/2/4-byte
   form; a client address given a physical part silently drops it) *)
Definition addr_ok (a : addr) : Prop :=
  match a with
  | (l, None, _) => l <= 127
  | (l, Some p, true) => l <= 16383 /\ p <= 16383
  | (_, Some _, false) => False
  end.
Definition std_addr (a : addr) : bytes :=
  let '(l, p, server) := a in if server then std_server l p else std_client l.

