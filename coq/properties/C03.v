(* C03 — Association state machine admits exactly the legal request/response sequences. *)
From Dlms Require Import Base AssocModel AssocSpec AssocProofs.

(* over the property's alphabet (6 request kinds sent, 15 response kinds received), for every state,
   every attribute combination the code branches on, normal and pre-established associations:
   whatever is accepted is a legal step of the client procedure and leads to the prescribed state
   (accepted association -> ready or HLS, rejected association / completed release -> not associated,
   block answer -> must acknowledge, ...) *)
Theorem C03_accepted_is_legal : forall pre s d e s', s < 13 -> e_kind e < 29 -> proof e < 3 ->
  in_alphabet d (e_kind e) = true -> step pre s d e = (Ok tt, s') ->
  may s d e = Some s' /\ (pre = true -> is_acse d (e_kind e) = false) /\ s' < 13.
Proof. exact accepted_is_legal. Qed.

(* every step the procedure requires is accepted *)
Theorem C03_required_is_accepted : forall pre s d e t, s < 13 -> e_kind e < 29 -> proof e < 3 ->
  in_alphabet d (e_kind e) = true -> must s d e = Some t -> (pre = true -> is_acse d (e_kind e) = false) ->
  step pre s d e = (Ok tt, t).
Proof. exact required_is_accepted. Qed.

(* on a pre-established association ACSE APDUs are refused in both directions, in every state,
   with the pre-established error *)
Theorem C03_preestablished_refuses_acse : forall s d e, s < 13 -> e_kind e < 29 -> proof e < 3 ->
  is_acse d (e_kind e) = true -> step true s d e = (Err EPreEst, s).
Proof. exact preestablished_refuses_acse. Qed.

(* histories of any length stay inside the declared states, and a pre-established association never
   becomes unassociated nor enters the association / release / HLS phases *)
Theorem C03_reachable_states : forall pre ops s, s < 13 -> ops_ok ops -> run pre s ops < 13.
Proof. exact reachable_states_bounded. Qed.
Theorem C03_preestablished_stays_associated : forall ops s, s < 13 -> pre_states s = true -> ops_ok ops ->
  pre_states (run true s ops) = true.
Proof. exact preestablished_stays_associated. Qed.

(* non-vacuity: associate, GET with one block, release *)
Example C03_nonvacuous :
  run false 0 [(DSend, mk 0 false false 0); (DRecv, mk 1 false false 0); (DSend, mk 4 false false 0);
               (DRecv, mk 10 false false 0); (DSend, mk 5 false false 0); (DRecv, mk 11 false false 0);
               (DSend, mk 2 false false 0); (DRecv, mk 3 false false 0)] = 0
  /\ step false 5 DSend (mk 4 false false 0) = (Err EProto, 5)
  /\ step false 10 DRecv (mk 15 true false 0) = (Ok tt, 2)
  /\ step false 10 DRecv (mk 15 true false 1) = (Ok tt, 0).
Proof. repeat split; vm_compute; reflexivity. Qed.

Print Assumptions C03_accepted_is_legal.
Print Assumptions C03_preestablished_stays_associated.
