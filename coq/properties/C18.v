(* C18 — HDLC transport reassembles segmented responses exactly, for every segmentation (partial). *)
From Dlms Require Import Base AddrModel FrameModel HdlcConnModel TransportModel TransportProofs.

(* a request that fits the maximum information size goes out as ONE information frame whose payload
   is the LLC command header followed by the APDU, unsegmented, numbered with the link's counters *)
Theorem C18_single_request_frame : forall t f telegram fb c1,
  t_out t = [] -> l_state (c_link (t_conn t)) = 1 ->
  (0 < length (LLC_COMMAND ++ telegram) <= t_max t)%nat ->
  let l := c_link (t_conn t) in
  let fr := {| f_dest := t_server t; f_src := t_client t; f_payload := Some (LLC_COMMAND ++ telegram);
               f_segmented := false; f_final := true; f_ssn := server_ssn l; f_rsn := server_rsn l |} in
  conn_send (t_conn t) KInfo fr = (Ok fb, c1) ->
  drain_out (S f) (upd t (t_conn t) (LLC_COMMAND ++ telegram) (t_ser t)) = (Ok tt, upd t c1 [] (ser_write (t_ser t) fb)).
Proof. exact single_request_frame. Qed.

(* whatever way the answer is split into frames (any number, any sizes): the collection loop returns
   the concatenation of the payloads in order and stops exactly at the unsegmented final frame *)
Theorem C18_collect_any_segmentation : forall frs t n t' acc fuel,
  is_segmentation frs -> delivers t frs n t' -> (length frs <= fuel)%nat ->
  collect fuel t acc = (Ok (acc ++ concat (map (fun x => payload_of (snd x)) frs)), t').
Proof. exact collect_returns_concatenation. Qed.

(* one receive-ready frame per segmented frame that hands over the turn *)
Theorem C18_rr_count : forall frs t n t', delivers t frs n t' ->
  n = length (filter (fun x => f_segmented (snd x) && f_final (snd x)) frs).
Proof. exact rr_count. Qed.

(* send() returns the answer APDU without the LLC response header *)
Theorem C18_send_strips_llc : forall t telegram t1 frs n t2 answer,
  drain_out (S (length (t_out t ++ LLC_COMMAND ++ telegram))) (upd t (t_conn t) (t_out t ++ LLC_COMMAND ++ telegram) (t_ser t)) = (Ok tt, t1) ->
  is_segmentation frs -> delivers t1 frs n t2 -> (length frs <= S (length (pending (t_ser t1))) + 50)%nat ->
  concat (map (fun x => payload_of (snd x)) frs) = LLC_RESPONSE ++ answer ->
  t_send t telegram = (Ok answer, t2).
Proof. exact send_strips_llc. Qed.

Print Assumptions C18_collect_any_segmentation.
Print Assumptions C18_send_strips_llc.
