(* C18 — HDLC transport reassembles segmented responses exactly, for every segmentation. *)
From Dlms Require Import Base AddrModel AddrSpec FrameModel FrameSpec HdlcConnModel HdlcStreamProofs TransportModel TransportProofs TransportE2E TransportMeter SessionCounters.

(* a request that fits the maximum information size goes out as ONE information frame whose payload
   is the LLC command header followed by the APDU, unsegmented, numbered with the link's counters *)
Theorem C18_single_request_frame : forall t f telegram fb c1,
  t_out t = [] -> l_state (c_link (t_conn t)) = 1 ->
  (0 < length (LLC_COMMAND ++ telegram) <= t_max t)%nat ->
  let l := c_link (t_conn t) in
  let fr := {| f_dest := t_server t; f_src := t_client t; f_payload := Some (LLC_COMMAND ++ telegram);
               f_segmented := false; f_final := true; f_ssn := server_ssn l; f_rsn := server_rsn l |} in
  conn_send (t_conn t) KInfo fr = (Ok fb, c1) ->
  drain_out (S f) (upd t (t_conn t) (LLC_COMMAND ++ telegram) (t_ser t)) = (Ok tt, upd t c1 [] (ser_write (t_ser t) fb)).
Proof. exact single_request_frame. Qed.

(* whatever way the answer is split into frames (any number, any sizes): the collection loop returns
   the concatenation of the payloads in order and stops exactly at the unsegmented final frame *)
Theorem C18_collect_any_segmentation : forall frs t n t' acc fuel,
  is_segmentation frs -> delivers t frs n t' -> (length frs <= fuel)%nat ->
  collect fuel t acc = (Ok (acc ++ concat (map (fun x => payload_of (snd x)) frs)), t').
Proof. exact collect_returns_concatenation. Qed.

(* one receive-ready frame per segmented frame that hands over the turn *)
Theorem C18_rr_count : forall frs t n t', delivers t frs n t' ->
  n = length (filter (fun x => f_segmented (snd x) && f_final (snd x)) frs).
Proof. exact rr_count. Qed.

(* send() returns the answer APDU without the LLC response header *)
Theorem C18_send_strips_llc : forall t telegram t1 frs n t2 answer,
  drain_out (S (length (t_out t ++ LLC_COMMAND ++ telegram))) (upd t (t_conn t) (t_out t ++ LLC_COMMAND ++ telegram) (t_ser t)) = (Ok tt, t1) ->
  is_segmentation frs -> delivers t1 frs n t2 -> (length frs <= S (length (pending (t_ser t1))) + 50)%nat ->
  concat (map (fun x => payload_of (snd x)) frs) = LLC_RESPONSE ++ answer ->
  t_send t telegram = (Ok answer, t2).
Proof. exact send_strips_llc. Qed.

(* ---------- end to end over the scripted serial port ----------
   The transport is idle with nothing buffered; the meter's answer is ANY list of information
   frames `items` (each a whole, final frame the link accepts at its point: `chain`; all but the
   last segmented: `is_segmentation`), each made readable only after the client's previous write
   (the request, then one receive-ready frame per segment); the serial line hands bytes over in
   pieces of ANY positive sizes (`pos_sched`; read_until never reads past the next flag byte);
   the request fits one information field.  Then send():
   - writes exactly the request frame (LLC command header + APDU, unsegmented, numbered from the
     link) followed by one receive-ready frame per segment, each carrying the link's receive
     number after that segment (`rr_list`);
   - returns exactly the answer APDU - the concatenated payloads without the LLC response header;
   - leaves the link in the state the exchange ends in (IDLE), nothing buffered, nothing unread. *)
Theorem C18_send_end_to_end : forall t telegram items later answer l_end,
  t_out t = [] -> c_buf (t_conn t) = [] -> c_pos (t_conn t) = 1%nat -> l_state (c_link (t_conn t)) = 1 ->
  readable (t_ser t) = [] -> pending (t_ser t) = map it_F items ++ later -> pos_sched (t_ser t) ->
  (0 < length (LLC_COMMAND ++ telegram) <= t_max t)%nat -> (15 <= t_max t <= 2032)%nat ->
  chain (after_request (c_link (t_conn t))) items l_end -> Forall answer_item items -> is_segmentation (map key items) ->
  concat (map (fun it => payload_of (it_f it)) items) = LLC_RESPONSE ++ answer ->
  let l := c_link (t_conn t) in
  exists fb s',
    frame_to_bytes KInfo {| f_dest := t_server t; f_src := t_client t; f_payload := Some (LLC_COMMAND ++ telegram);
                            f_segmented := false; f_final := true; f_ssn := server_ssn l; f_rsn := server_rsn l |} = Ok fb
    /\ t_send t telegram = (Ok answer, upd t {| c_link := l_end; c_buf := []; c_pos := 1 |} [] s')
    /\ written s' = written (t_ser t) ++ fb :: rr_list t (after_request l) items
    /\ readable s' = [] /\ pending s' = later /\ pos_sched s'.
Proof. exact send_end_to_end. Qed.

(* ---------- the whole statement, no acceptance hypothesis left ----------
   The meter splits its answer (LLC response header + APDU) into the segments `ps` in ANY way - any
   number of segments, any sizes the frame format can carry (`segment_ok`) - and sends each as the
   STANDARD information frame (`std_frame`, the C09 reference layout) with the numbers the link
   procedure prescribes, one per receive-ready.  That these frames are accepted is the C09 theorem
   (parsing the standard bytes returns the frame), that the link admits them is read off the
   generated table.  Then, for any read granularity, send() returns exactly the answer, has written
   the request and exactly one receive-ready frame per segment but the last, and the link is idle. *)
Theorem C18_send_any_segmentation : forall t telegram ps later answer,
  t_out t = [] -> c_buf (t_conn t) = [] -> c_pos (t_conn t) = 1%nat -> l_state (c_link (t_conn t)) = 1 ->
  readable (t_ser t) = [] -> pos_sched (t_ser t) ->
  (0 < length (LLC_COMMAND ++ telegram) <= t_max t)%nat -> (15 <= t_max t <= 2032)%nat ->
  addr_ok (t_client t) -> addr_ok (t_server t) -> a_server (t_client t) = false -> a_server (t_server t) = true ->
  ps <> [] -> Forall (segment_ok (t_client t) (t_server t)) ps -> concat ps = LLC_RESPONSE ++ answer ->
  let la := after_request (c_link (t_conn t)) in
  let items := meter_items (t_client t) (t_server t) (client_ssn la) (client_rsn la) ps in
  pending (t_ser t) = map it_F items ++ later ->
  exists fb s',
    t_send t telegram = (Ok answer, upd t {| c_link := link_after la ps; c_buf := []; c_pos := 1 |} [] s')
    /\ l_state (link_after la ps) = 1
    /\ written s' = written (t_ser t) ++ fb :: rr_list t la items
    /\ length (rr_list t la items) = (length ps - 1)%nat
    /\ readable s' = [] /\ pending s' = later /\ pos_sched s'.
Proof. exact send_any_segmentation. Qed.

(* sessions: ANY number of exchanges on one transport, each answer segmented in any way; the
   sequence numbers wrap as the session goes on (induction over the exchanges: each one leaves the
   transport in the state the next one starts from) *)
Theorem C18_session : forall es t later,
  t_out t = [] -> c_buf (t_conn t) = [] -> c_pos (t_conn t) = 1%nat -> l_state (c_link (t_conn t)) = 1 ->
  readable (t_ser t) = [] -> pos_sched (t_ser t) -> (15 <= t_max t <= 2032)%nat ->
  addr_ok (t_client t) -> addr_ok (t_server t) -> a_server (t_client t) = false -> a_server (t_server t) = true ->
  Forall (ex_ok t) es ->
  pending (t_ser t) = session_pending t (c_link (t_conn t)) es ++ later ->
  exists s',
    run_session t (map (fun e => fst (fst e)) es)
    = (map (fun e => Ok (snd e)) es, upd t {| c_link := session_link (c_link (t_conn t)) es; c_buf := []; c_pos := 1 |} [] s')
    /\ l_state (session_link (c_link (t_conn t)) es) = 1 /\ readable s' = [] /\ pending s' = later.
Proof. exact session_any_segmentations. Qed.

(* the receive-ready frame acknowledges the segment just received: N(R) = N(S) + 1 mod 8, and the
   link's numbering stays consistent, so this holds for every later segment too (numbers wrap) *)
Theorem C18_rr_number : forall l ssn rsn l1, client_ssn l <= 7 -> server_rsn l = client_ssn l ->
  link_on_frame l KInfo ssn rsn = (Ok tt, l1) ->
  server_rsn l1 = (ssn + 1) mod 8 /\ server_rsn l1 = client_ssn l1 /\ client_ssn l1 <= 7.
Proof. exact rr_number. Qed.

(* connect(): SNRM out, the UA - delivered in pieces of any positive sizes - in, link connected (IDLE);
   disconnect(): DISC out, UA in, link disconnected (NOT_CONNECTED) *)
Theorem C18_connect : forall t F f later,
  t_out t = [] -> c_buf (t_conn t) = [] -> c_pos (t_conn t) = 1%nat -> l_state (c_link (t_conn t)) = 0 ->
  readable (t_ser t) = [] -> pending (t_ser t) = F :: later -> pos_sched (t_ser t) -> (15 <= t_max t)%nat ->
  frame_from_bytes KUa F = Ok f ->
  exists fb s', frame_to_bytes KSnrm (unnumbered_frame t) = Ok fb
    /\ t_connect t = (EFrame KUa f, upd t {| c_link := set_state (c_link (t_conn t)) 1; c_buf := []; c_pos := 1 |} [] s')
    /\ written s' = written (t_ser t) ++ [fb] /\ readable s' = [] /\ pending s' = later.
Proof. exact connect_end_to_end. Qed.
Theorem C18_disconnect : forall t F f later,
  t_out t = [] -> c_buf (t_conn t) = [] -> c_pos (t_conn t) = 1%nat -> l_state (c_link (t_conn t)) = 1 ->
  readable (t_ser t) = [] -> pending (t_ser t) = F :: later -> pos_sched (t_ser t) -> (15 <= t_max t)%nat ->
  frame_from_bytes KUa F = Ok f ->
  exists fb s', frame_to_bytes KDisc (unnumbered_frame t) = Ok fb
    /\ t_disconnect t = (EFrame KUa f, upd t {| c_link := set_state (c_link (t_conn t)) 0; c_buf := []; c_pos := 1 |} [] s')
    /\ written s' = written (t_ser t) ++ [fb] /\ readable s' = [] /\ pending s' = later.
Proof. exact disconnect_end_to_end. Qed.

(* non-vacuity: a session connect / send / disconnect; the answer comes in two segments whose
   payloads contain the flag byte; reads of 1, 2, 3, 5 bytes then as much as asked for *)
Definition ex_ua : bytes := [126; 160; 10; 33; 2; 35; 115; 242; 85; 71; 15; 126].
Definition ex_a1 : bytes := [126; 168; 16; 33; 2; 35; 48; 221; 252; 230; 231; 0; 196; 1; 126; 122; 232; 126].
Definition ex_a2 : bytes := [126; 160; 13; 33; 2; 35; 50; 163; 54; 126; 0; 9; 117; 194; 126].
Definition ex_fa1 : frame :=
  {| f_dest := (16, None, false); f_src := (1, Some 17, true); f_payload := Some [230; 231; 0; 196; 1; 126];
     f_segmented := true; f_final := true; f_ssn := 0; f_rsn := 1 |}.
Definition ex_fa2 : frame :=
  {| f_dest := (16, None, false); f_src := (1, Some 17, true); f_payload := Some [126; 0; 9];
     f_segmented := false; f_final := true; f_ssn := 1; f_rsn := 1 |}.
Definition ex_items : list item :=
  [ {| it_pk := KInfo; it_F := ex_a1; it_f := ex_fa1; it_shared := false |};
    {| it_pk := KInfo; it_F := ex_a2; it_f := ex_fa2; it_shared := false |} ].
Definition ex_t0 : transport :=
  {| t_conn := conn_init; t_out := [];
     t_ser := {| pending := [ex_ua; ex_a1; ex_a2; ex_ua]; readable := []; sched := [1; 2; 3; 5]%nat; written := [] |};
     t_client := (16, None, false); t_server := (1, Some 17, true); t_max := 128 |}.
Definition ex_t1 : transport := snd (t_connect ex_t0).
Definition ex_t2 : transport := snd (t_send ex_t1 [192; 1; 193; 0]).
Example C18_nonvacuous :
  (* connect: hypotheses of C18_connect *)
  (l_state (c_link (t_conn ex_t0)) = 0 /\ pos_sched (t_ser ex_t0) /\ exists f, frame_from_bytes KUa ex_ua = Ok f) /\
  (* send: hypotheses of C18_send_end_to_end on the connected transport *)
  (t_out ex_t1 = [] /\ c_buf (t_conn ex_t1) = [] /\ l_state (c_link (t_conn ex_t1)) = 1 /\ readable (t_ser ex_t1) = [] /\
   pending (t_ser ex_t1) = map it_F ex_items ++ [ex_ua] /\ pos_sched (t_ser ex_t1) /\
   (exists l_end, chain (after_request (c_link (t_conn ex_t1))) ex_items l_end) /\
   Forall answer_item ex_items /\ is_segmentation (map key ex_items) /\
   concat (map (fun it => payload_of (it_f it)) ex_items) = LLC_RESPONSE ++ [196; 1; 126; 126; 0; 9]) /\
  fst (t_send ex_t1 [192; 1; 193; 0]) = Ok [196; 1; 126; 126; 0; 9] /\
  length (written (t_ser ex_t2)) = 3%nat /\
  (* disconnect *)
  l_state (c_link (t_conn ex_t2)) = 1 /\ l_state (c_link (t_conn (snd (t_disconnect ex_t2)))) = 0.
Proof.
  split; [split; [reflexivity|split; [repeat constructor|eexists; vm_compute; reflexivity]]|].
  split.
  - split; [vm_compute; reflexivity|]. split; [vm_compute; reflexivity|]. split; [vm_compute; reflexivity|].
    split; [vm_compute; reflexivity|]. split; [vm_compute; reflexivity|].
    split; [vm_compute; repeat constructor|].
    split.
    + eexists. eapply chain_cons; [vm_compute; reflexivity|vm_compute; reflexivity|vm_compute; reflexivity|].
      eapply chain_cons; [vm_compute; reflexivity|vm_compute; reflexivity|vm_compute; reflexivity|]. apply chain_nil.
    + split; [repeat constructor|]. split; [vm_compute; repeat split|vm_compute; reflexivity].
  - repeat split; vm_compute; reflexivity.
Qed.

(* over such a session the link's four counters count the information frames: the numbers the client puts into its next
   frame are (requests sent) mod 8 and (segments received) mod 8 - whatever the number of exchanges and segmentations *)
Theorem C18_session_counters : forall es l, small l ->
  small (session_link l es) /\
  server_ssn (session_link l es) = (server_ssn l + N.of_nat (length es)) mod 8 /\
  client_rsn (session_link l es) = (client_rsn l + N.of_nat (length es)) mod 8 /\
  client_ssn (session_link l es) = (client_ssn l + N.of_nat (segments es)) mod 8 /\
  server_rsn (session_link l es) = (server_rsn l + N.of_nat (segments es)) mod 8.
Proof. exact session_counters. Qed.

Definition ex_ps : list bytes := [[230; 231; 0; 196; 1; 126]; [126; 0; 9]].
Example C18_any_segmentation_nonvacuous :
  let la := after_request (c_link (t_conn ex_t1)) in
  ex_ps <> [] /\ Forall (segment_ok (t_client ex_t1) (t_server ex_t1)) ex_ps /\
  addr_ok (t_client ex_t1) /\ addr_ok (t_server ex_t1) /\
  concat ex_ps = LLC_RESPONSE ++ [196; 1; 126; 126; 0; 9] /\
  pending (t_ser ex_t1) = map it_F (meter_items (t_client ex_t1) (t_server ex_t1) (client_ssn la) (client_rsn la) ex_ps) ++ [ex_ua] /\
  Forall (ex_ok ex_t1) [([192; 1; 193; 0], ex_ps, [196; 1; 126; 126; 0; 9])].
Proof.
  cbv zeta. split; [discriminate|]. split.
  - repeat constructor; try (vm_compute; lia); try (vm_compute; discriminate).
  - split; [vm_compute; discriminate|]. split; [vm_compute; split; discriminate|]. split; [reflexivity|]. split; [vm_compute; reflexivity|].
    constructor; [|constructor]. unfold ex_ok. split; [vm_compute; lia|]. split; [discriminate|]. split; [|reflexivity].
    repeat constructor; try (vm_compute; lia); try (vm_compute; discriminate).
Qed.

Print Assumptions C18_collect_any_segmentation.
Print Assumptions C18_send_strips_llc.
Print Assumptions C18_send_end_to_end.
Print Assumptions C18_connect.
Print Assumptions C18_disconnect.
Print Assumptions C18_send_any_segmentation.
Print Assumptions C18_session.
Print Assumptions C18_session_counters.
