(* C17 — IP wrapper frames by length; TCP transport returns whole APDUs for any chunking. *)
From Dlms Require Import Base WrapperModel WrapperSpec WrapperProofs WrapperStream WrapperSound WrapperSoundN.

(* the header is four big-endian 16-bit fields: version, source port, destination port, length *)
Theorem C17_header_layout : forall src dst ln ver, src < 65536 -> dst < 65536 -> ln < 65536 -> ver < 65536 ->
  whdr_to_bytes (src, dst, ln, ver) = Ok (be_bytes 2 ver ++ be_bytes 2 src ++ be_bytes 2 dst ++ be_bytes 2 ln).
Proof. exact header_layout. Qed.

(* wrapping then unwrapping returns the same ports and payload, for every payload length *)
Theorem C17_wrapper_roundtrip : forall src dst ver payload,
  src < 65536 -> dst < 65536 -> ver < 65536 -> len payload < 65536 ->
  wpdu_to_bytes (src, dst, len payload, ver) payload = Ok (std_header ver src dst (len payload) ++ payload) /\
  wpdu_from_bytes (std_header ver src dst (len payload) ++ payload) = Ok (payload, (src, dst, len payload, ver)).
Proof. exact wrapper_roundtrip. Qed.

(* a datagram whose length field disagrees with its payload is refused *)
Theorem C17_length_mismatch_refused : forall src dst ver ln payload,
  src < 65536 -> dst < 65536 -> ver < 65536 -> ln < 65536 -> ln <> len payload ->
  wpdu_from_bytes (std_header ver src dst ln ++ payload) = Err ERefused.
Proof. exact wrapper_length_mismatch_refused. Qed.

(* the transport sends each APDU behind version 1, client port, server port, exact length *)
Theorem C17_send_wraps : forall client server payload,
  client < 65536 -> server < 65536 -> len payload < 65536 ->
  tcp_wrap client server payload = Ok (std_header 1 client server (len payload) ++ payload).
Proof. exact wrap_is_header_plus_payload. Qed.

(* receive returns exactly the announced payload - all of it and nothing more - for every
   schedule of read sizes (each read returns at least one byte), leaving the next message unread *)
Theorem C17_recv_any_schedule : forall src dst ver payload next sched,
  src < 65536 -> dst < 65536 -> ver < 65536 -> len payload < 65536 -> sched_ok sched ->
  exists sched', sched_ok sched' /\
    tcp_recv (std_header ver src dst (len payload) ++ payload ++ next, sched) = (Ok payload, (next, sched')).
Proof. exact tcp_recv_any_schedule. Qed.

(* a connection closed before the announced payload arrived is an error, never a short APDU *)
Theorem C17_recv_eof_refused : forall src dst ver ln partial,
  src < 65536 -> dst < 65536 -> ver < 65536 -> ln < 65536 -> (length partial < N.to_nat ln)%nat ->
  exists e s', tcp_recv (std_header ver src dst ln ++ partial, []) = (Err e, s') /\ e <> EFuel.
Proof. exact tcp_recv_eof_refused. Qed.

Example C17_nonvacuous :
  sched_ok [3; 1; 1; 2; 4; 1]%nat /\
  tcp_recv (std_header 1 1 16 5 ++ [104; 101; 108; 108; 111] ++ [0; 1], [3; 1; 1; 2; 4; 1; 1; 1; 1; 1]%nat)
  = (Ok [104; 101; 108; 108; 111], ([0; 1], [])).
Proof. split; [repeat constructor|]. vm_compute. reflexivity. Qed.

(* any number of messages back to back on one TCP stream, read under any schedule: n calls of recv()
   return exactly the n payloads, whole, in order, and leave exactly what follows them unread *)
Theorem C17_recv_stream_any_schedule : forall ms tail sched,
  Forall wmsg_ok ms -> sched_ok sched ->
  exists sched', sched_ok sched' /\
    tcp_recv_n (length ms) (wstream ms ++ tail, sched) = (map (fun m => Ok (wmsg_payload m)) ms, (tail, sched')).
Proof. exact tcp_recv_stream_any_schedule. Qed.

(* ... and after the first j of them exactly the remaining messages are still unread *)
Theorem C17_recv_stream_prefix : forall ms1 ms2 tail sched,
  Forall wmsg_ok ms1 -> sched_ok sched ->
  exists sched', sched_ok sched' /\
    tcp_recv_n (length ms1) (wstream (ms1 ++ ms2) ++ tail, sched)
    = (map (fun m => Ok (wmsg_payload m)) ms1, (wstream ms2 ++ tail, sched')).
Proof. exact tcp_recv_stream_prefix. Qed.

(* a stream that ends inside its last message: the whole messages before it are returned, the call that
   meets the end of the stream is an error - never a short APDU *)
Theorem C17_recv_stream_eof : forall ms ver src dst ln partial,
  Forall wmsg_ok ms -> src < 65536 -> dst < 65536 -> ver < 65536 -> ln < 65536 ->
  (length partial < N.to_nat ln)%nat ->
  exists e s', tcp_recv_n (length ms + 1) (wstream ms ++ std_header ver src dst ln ++ partial, [])
               = (map (fun m => Ok (wmsg_payload m)) ms ++ [Err e], s') /\ e <> EFuel.
Proof. exact tcp_recv_stream_eof. Qed.

Example C17_stream_nonvacuous :
  Forall wmsg_ok [(1, 1, 16, [104; 105]); (1, 16, 1, []); (1, 1, 16, [1; 2; 3])] /\
  tcp_recv_n 3 (wstream [(1, 1, 16, [104; 105]); (1, 16, 1, []); (1, 1, 16, [1; 2; 3])] ++ [9], [3; 1; 7; 2; 1; 30]%nat)
  = ([Ok [104; 105]; Ok []; Ok [1; 2; 3]], ([9], [])).
Proof. exact wstream_nonvacuous. Qed.

(* whole sessions - send() is wrap, sendall, recv: for any requests and any answers (one per request; any ports, version
   and payload up to 65535 bytes) read under any schedule, the transport writes exactly the standard wrapped requests in
   order, one sendall() each, every send() returns its answer's payload whole, and what follows the answers stays unread *)
Theorem C17_session_any_schedule : forall client server reqs answers tail sched written,
  client < 65536 -> server < 65536 -> Forall (fun q => len q < 65536) reqs -> Forall wmsg_ok answers ->
  length answers = length reqs -> sched_ok sched ->
  exists sched', sched_ok sched' /\
    tcp_session client server reqs ((wstream answers ++ tail, sched), written)
    = (map (fun m => Ok (wmsg_payload m)) answers,
       ((tail, sched'), written ++ map (std_request client server) reqs)).
Proof. exact tcp_session_any_schedule. Qed.

(* a request the 16-bit length field cannot describe is refused before anything is written or read *)
Theorem C17_send_too_long_refused : forall client server q st,
  client < 65536 -> server < 65536 -> 65536 <= len q ->
  exists e, tcp_send client server q st = (Err e, st).
Proof. exact tcp_send_too_long_refused. Qed.

Example C17_session_nonvacuous :
  tcp_session 16 1 [[192; 1]; [98; 0]] ((wstream [(1, 1, 16, [196; 1; 0]); (1, 1, 16, [99])] ++ [7], [3; 1; 9; 2; 2; 2]%nat), [])
  = ([Ok [196; 1; 0]; Ok [99]], (([7], []), [std_request 16 1 [192; 1]; std_request 16 1 [98; 0]])).
Proof. exact tcp_session_nonvacuous. Qed.

(* soundness, no hypothesis on what the peer sent: a datagram the decoder accepts is the standard header of the fields it
   returns followed by exactly the payload it returns, and the length field equals the payload length *)
Theorem C17_wrapper_decode_sound : forall b payload src dst ln ver,
  bytes_ok b -> wpdu_from_bytes b = Ok (payload, (src, dst, ln, ver)) ->
  b = std_header ver src dst ln ++ payload /\ ln = len payload /\ src < 65536 /\ dst < 65536 /\ ln < 65536 /\ ver < 65536.
Proof. exact wpdu_from_bytes_sound. Qed.

(* ... and whatever recv() returns, for ANY byte stream and ANY schedule of read sizes (also reads of zero bytes, also an
   exhausted schedule), is a whole APDU exactly as the stream announces it: the stream is a standard header whose length
   field is the length of the payload returned, then exactly that payload, then exactly what is left unread *)
Theorem C17_recv_sound : forall stream sched p rest sched',
  bytes_ok stream -> tcp_recv (stream, sched) = (Ok p, (rest, sched')) ->
  exists ver src dst, stream = std_header ver src dst (len p) ++ p ++ rest /\
                      len p < 65536 /\ src < 65536 /\ dst < 65536 /\ ver < 65536.
Proof. exact tcp_recv_sound. Qed.

(* ... and if k successive calls all return payloads, the stream consists of k standard messages carrying exactly those
   payloads, in that order, followed by exactly what is left unread (any stream, any schedule) *)
Theorem C17_recv_n_sound : forall k stream sched ps rest sched',
  bytes_ok stream -> tcp_recv_n k (stream, sched) = (map Ok ps, (rest, sched')) -> length ps = k ->
  exists ms, Forall wmsg_ok ms /\ map wmsg_payload ms = ps /\ stream = wstream ms ++ rest.
Proof. exact tcp_recv_n_sound. Qed.

(* whole sessions, no hypothesis on what the meter sent: if every send() returned a payload, exactly the standard wrapped
   requests were written, in order, and the stream consists of standard messages carrying exactly the payloads returned,
   in that order, followed by exactly what is left unread *)
Theorem C17_session_sound : forall client server reqs stream sched written ps rest sched' written',
  bytes_ok stream ->
  tcp_session client server reqs ((stream, sched), written) = (map Ok ps, ((rest, sched'), written')) ->
  length ps = length reqs ->
  written' = written ++ map (std_request client server) reqs /\
  exists ms, Forall wmsg_ok ms /\ map wmsg_payload ms = ps /\ stream = wstream ms ++ rest.
Proof. exact tcp_session_sound. Qed.

Print Assumptions C17_recv_any_schedule.
Print Assumptions C17_wrapper_roundtrip.
Print Assumptions C17_recv_stream_any_schedule.
Print Assumptions C17_recv_stream_eof.
Print Assumptions C17_session_any_schedule.
Print Assumptions C17_recv_sound.
Print Assumptions C17_wrapper_decode_sound.
Print Assumptions C17_recv_n_sound.
Print Assumptions C17_session_sound.
