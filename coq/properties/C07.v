(* C07 — a refused incoming APDU leaves the connection exactly as it was.  E is an arbitrary block function. *)
From Dlms Require Import Base XdlmsModel AcseModel ConnModel ConnProofs.

(* whatever the bytes and whatever the reason (undecodable, failed authentication, old counter, not protected,
   not allowed in the state, failure in the HLS handling): when next_event raises, protocol state, both counters, meter
   title, mechanism, challenge, conformance and PDU size are what they were *)
Theorem C07_refusal_preserves : forall (E : bytes -> bytes -> bytes) k c buf e c',
  dlms_next_event E k c buf = (Err e, c') -> c' = c.
Proof. exact refusal_preserves. Qed.
Print Assumptions C07_refusal_preserves.

(* a refused input at any point of any session: every later step (genuine answers included) gives exactly what it would have
   given had the input never arrived *)
Theorem C07_refused_input_leaves_no_trace : forall (E : bytes -> bytes -> bytes) k c before bad after,
  let '(_, c1) := run E k c before in
  forall e c2, dlms_next_event E k c1 bad = (Err e, c2) ->
  run E k c (before ++ ORecv bad :: after) =
    let '(xb, _) := run E k c before in let '(xa, cf) := run E k c1 after in (xb ++ RMsg (Err e) :: xa, cf).
Proof. exact refused_input_leaves_no_trace. Qed.
Print Assumptions C07_refused_input_leaves_no_trace.

Theorem C07_receiving_keeps_client_counter : forall (E : bytes -> bytes -> bytes) k c buf,
  c_cic (snd (dlms_next_event E k c buf)) = c_cic c.
Proof. exact next_event_keeps_client_counter. Qed.
Print Assumptions C07_receiving_keeps_client_counter.

(* non-vacuity: a forged general-glo-ciphering APDU with counter 4 000 000 000 is refused by the executable model
   (AES-128) and leaves the meter counter at 3 *)
Example C07_forged_high_counter_refused :
  let k := {| k_title := [67; 76; 73; 69; 78; 84; 48; 49]; k_ek := Some (repeat 1 16); k_ak := Some (repeat 2 16); k_suite := 0; k_pre := true;
              k_challenge := repeat 3 16 |} in
  let c := {| c_state := 5; c_cic := 0; c_mic := 3; c_mtitle := Some [77; 69; 84; 69; 82; 48; 48; 49]; c_auth := None; c_mchallenge := None;
              c_conf := repeat false 17; c_maxpdu := 65535 |} in
  dlms_next_event Aes.aes_encrypt k c ([219; 8; 77; 69; 84; 69; 82; 48; 48; 49; 20; 48; 238; 107; 40; 0] ++ repeat 9 15) = (Err EDecrypt, c).
Proof. vm_compute. reflexivity. Qed.
