(* C12 — Frame check sequences equal CRC-16/X-25 for every message.
   This file contains only the property statements, closed by [exact], and their axioms. *)
From Dlms Require Import Base CrcModel CrcSpec CrcProofs.

(* For every byte string of any length the library's check value is the X-25 CRC of that
   string, low byte first (and high byte first when lsb_first is requested). *)
Theorem C12_check_value_is_x25 : forall msg, bytes_ok msg ->
  calculate_for msg false = [x25 msg mod 256; x25 msg / 256] /\
  calculate_for msg true = [x25 msg / 256; x25 msg mod 256].
Proof. exact calculate_for_is_x25. Qed.

(* Appending the check value always yields the fixed X-25 residue. *)
Theorem C12_residue : forall msg, bytes_ok msg ->
  x25_reg (msg ++ calculate_for msg false) = 0xF0B8.
Proof. exact appended_fcs_gives_residue. Qed.

(* non-vacuity: the hypotheses are met by a concrete non-trivial message, and the reference
   is the public CRC-16/X-25 (check value 0x906E for "123456789") *)
Example C12_nonvacuous : bytes_ok ascii_123456789 /\ x25 ascii_123456789 = 0x906E
  /\ calculate_for ascii_123456789 false = [0x6E; 0x90].
Proof. split; [apply bytes_okb_spec; reflexivity|]. split; vm_compute; reflexivity. Qed.

Print Assumptions C12_check_value_is_x25.
Print Assumptions C12_residue.
