(* C04 — with keys set, every APDU sent is ciphered; plaintext answers are refused.  E is an arbitrary block function. *)
From Dlms Require Import Base FieldsModel XdlmsModel XdlmsSpec AcseModel SecurityModel ConnModel ConnProofs.

(* whatever leaves send on a connection that uses protection is one of: a general-glo-ciphering APDU around the GCM protection
   of the plain encoding (title, security control 0x30 + suite, the counter used), an AARQ / RLRQ whose user-information is the
   glo-initiate-request around the protection of its initiate parameters, or a release request that has no parameters at all *)
Theorem C04_send_is_ciphered : forall (E : bytes -> bytes -> bytes) k c m b c',
  use_protection k = true -> dlms_send E k c m = (Ok b, c') -> ciphered_output E k c m b.
Proof. exact send_is_ciphered. Qed.
Print Assumptions C04_send_is_ciphered.

(* every APDU kind, payload, state, key, title, suite and counter: standard layout, and the content decrypts under the
   configured keys to exactly the plain encoding *)
Theorem C04_service_apdu_layout : forall (E : bytes -> bytes -> bytes) k c a b c', (forall key blk, length (E key blk) = 16%nat) ->
  use_protection k = true -> dlms_send E k c (MX a) = (Ok b, c') ->
  exists ek ak pt ct, keyed k ek ak /\ apdu_to_bytes a = Ok pt /\
    sec_encrypt E (cipher_sc k) (k_title k) (c_cic c) ek ak pt = Ok ct /\
    sec_decrypt E (cipher_sc k) (k_title k) (c_cic c) ek ak ct = Ok pt /\
    (len ct + 5 < 4294967296 -> b = [219; 8] ++ k_title k ++ std_ciphered (cipher_sc k) (c_cic c) ct) /\
    c_cic c' = c_cic c + 1.
Proof. exact service_apdu_layout. Qed.
Print Assumptions C04_service_apdu_layout.

(* an unciphered GET / SET / ACTION response, data-notification or any other plain xDLMS APDU is refused and changes nothing *)
Theorem C04_plaintext_refused : forall (E : bytes -> bytes -> bytes) k c buf a,
  use_protection k = true -> msg_from_bytes buf = Ok (MX a) ->
  (forall t s ic x, a <> GeneralGlobalCipher t s ic x) -> dlms_next_event E k c buf = (Err ERefused, c).
Proof. exact plaintext_refused. Qed.
Print Assumptions C04_plaintext_refused.

Theorem C04_missing_key_sends_nothing : forall (E : bytes -> bytes -> bytes) k c m b c',
  use_protection k = true -> (truthy_key (k_ek k) = None \/ truthy_key (k_ak k) = None) ->
  dlms_send E k c m = (Ok b, c') -> exists r, m = MRlrq r /\ r_user r = None.
Proof. exact missing_key_sends_nothing. Qed.
Print Assumptions C04_missing_key_sends_nothing.

(* non-vacuity: a GET request on a keyed pre-established connection leaves as tag 219 with counter 7 (executable AES) *)
Example C04_nonvacuous :
  let k := {| k_title := [67; 76; 73; 69; 78; 84; 48; 49]; k_ek := Some (repeat 1 16); k_ak := Some (repeat 2 16); k_suite := 0; k_pre := true;
              k_challenge := repeat 3 16 |} in
  let c := {| c_state := 2; c_cic := 7; c_mic := 0; c_mtitle := None; c_auth := None; c_mchallenge := None; c_conf := repeat false 17; c_maxpdu := 65535 |} in
  match dlms_send Aes.aes_encrypt k c (MX (GetRequestNormal (1, [0; 0; 1; 0; 0; 255], 2) (1, true, true) None)) with
  | (Ok b, c') => firstn 16 b = [219; 8; 67; 76; 73; 69; 78; 84; 48; 49; 30; 48; 0; 0; 0; 7] /\ c_cic c' = 8 /\ c_state c' = 5
  | _ => False
  end.
Proof. vm_compute. repeat split. Qed.
