(* C08 — HLS-GMAC: the association becomes usable only after the meter proves key knowledge.  E is an arbitrary block function. *)
From Dlms Require Import Base FieldsModel AxdrModel XdlmsModel AcseModel Gcm SecurityModel ConnModel ConnProofs.

(* the reply to the meter's challenge is SC || counter || GMAC over SC || AK || meter challenge under the client's nonce
   (SC = 0x10 + suite: authentication only), and it consumes its counter *)
Theorem C08_hls_reply_is_standard : forall (E : bytes -> bytes -> bytes) k c b c', dlms_hls_reply E k c = (Ok b, c') ->
  exists ek ak ch, truthy_key (k_ek k) = Some ek /\ truthy_key (k_ak k) = Some ak /\ truthy (c_mchallenge c) = Some ch /\
    c_auth c = Some 5 /\ length (k_title k) = 8%nat /\ c_cic c < 2 ^ 32 /\
    b = [k_suite k + 16] ++ be_bytes 4 (c_cic c) ++
        firstn 12 (gcm_tag (E ek) (k_title k ++ be_bytes 4 (c_cic c)) ((k_suite k + 16) :: ak ++ ch) []) /\
    c_cic c' = c_cic c + 1.
Proof. exact hls_reply_is_standard. Qed.
Print Assumptions C08_hls_reply_is_standard.

(* no service request can be sent until the meter's answer has been received: nothing in the two waiting states, and only the
   ACTION request (the reply) while the reply is due *)
Theorem C08_no_service_request_during_hls : forall (E : bytes -> bytes -> bytes) k c a, is_service_request a = true ->
  (c_state c = 10 \/ c_state c = 11 \/ (c_state c = 9 /\ apdu_kind a <> 7)) ->
  exists e, dlms_send E k c (MX a) = (Err e, c).
Proof. exact no_service_request_during_hls. Qed.
Print Assumptions C08_no_service_request_during_hls.

(* ANY input that takes the connection from "awaiting the meter's result" to READY is an ACTION response with status success whose
   data is an octet string ending in the GMAC over the client's challenge under the meter's nonce and the configured keys;
   contrapositive: an altered proof, wrong challenge / key / title, error status, missing or malformed data never makes it ready *)
Theorem C08_ready_only_if_meter_proves_key_knowledge : forall (E : bytes -> bytes -> bytes) k c buf m c',
  c_state c = 10 -> dlms_next_event E k c buf = (Ok m, c') -> c_state c' = 2 ->
  exists data iid resp x ek ak mt g,
    m = MX (ActionResponseNormalWithData 0 data iid) /\
    parse_as_dlms_data data = Ok (PBytes resp) /\ sc_from_byte (hd 0 resp) = Ok x /\
    truthy_key (k_ek k) = Some ek /\ truthy_key (k_ak k) = Some ak /\ truthy (c_mtitle c') = Some mt /\
    sec_gmac E x mt (be_val (slice 1 5 resp)) ek ak (k_challenge k) = Ok g /\ lastn 12 resp = g.
Proof. exact ready_only_if_meter_proves_key_knowledge. Qed.
Print Assumptions C08_ready_only_if_meter_proves_key_knowledge.

(* non-vacuity: the state machine does take 10 --ActionResponseNormalWithData(success, valid proof)--> READY *)
Example C08_nonvacuous : AssocModel.assoc_recv false 10 (AssocModel.Build_ev 15 true false 0) = (Ok tt, 2)
  /\ AssocModel.assoc_recv false 10 (AssocModel.Build_ev 15 true false 1) = (Ok tt, 0).
Proof. split; vm_compute; reflexivity. Qed.
