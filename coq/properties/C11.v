(* C11 — HDLC link follows the normal-response-mode client procedure with mod-8 numbering. *)
From Dlms Require Import Base FrameModel HdlcConnModel HdlcLinkSpec HdlcLinkProofs.

(* everything the link accepts - in either direction, in any of its states - is an edge of the
   NRM client procedure with the prescribed post-state, and an information frame is accepted
   for sending or on receipt only if its numbers equal the link's current counters *)
Theorem C11_accepted_within_procedure : forall l d k ssn rsn l', l_state l < 6 ->
  link_step l d k ssn rsn = (Ok tt, l') ->
  nrm_may (l_state l) d k = Some (l_state l') /\ (k = KInfo -> (ssn, rsn) = expected_numbers l d).
Proof. exact accepted_within_nrm. Qed.

(* every edge the procedure requires is accepted with the prescribed post-state *)
Theorem C11_required_edges_accepted : forall l d k ssn rsn s', l_state l < 6 ->
  nrm_must (l_state l) d k = Some s' -> (k = KInfo -> (ssn, rsn) = expected_numbers l d) ->
  exists l', link_step l d k ssn rsn = (Ok tt, l') /\ l_state l' = s'.
Proof. exact must_edges_accepted. Qed.

(* after any history of sends and receives (accepted or refused), of any length, the counters the
   client must put in its next frame equal the numbers of information frames sent and received so
   far modulo 8 (each advances by one per accepted information frame in its direction) *)
Theorem C11_counters_count_frames : forall ops,
  let '(l, ns, nr) := run link_init 0 0 ops in
  server_ssn l = ns mod 8 /\ client_rsn l = ns mod 8 /\ server_rsn l = nr mod 8 /\ client_ssn l = nr mod 8.
Proof. exact counters_from_start. Qed.

(* non-vacuity: a history that wraps the send counter: connect, then nine request/response exchanges *)
Example C11_nonvacuous :
  let exchange i := [(DSend, KInfo, i mod 8, i mod 8); (DRecv, KInfo, i mod 8, (i + 1) mod 8)] in
  let ops := [(DSend, KSnrm, 0, 0); (DRecv, KUa, 0, 0)] ++ flat_map exchange [0; 1; 2; 3; 4; 5; 6; 7; 8] in
  run link_init 0 0 ops =
    ({| l_state := 1; client_ssn := 1; client_rsn := 1; server_ssn := 1; server_rsn := 1 |}, 9, 9).
Proof. vm_compute. reflexivity. Qed.

Print Assumptions C11_accepted_within_procedure.
Print Assumptions C11_counters_count_frames.
