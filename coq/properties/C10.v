(* C10 — HDLC receive path yields the same frames however the byte stream is chunked. *)
From Dlms Require Import Base AddrModel AddrSpec FrameModel FrameSpec HdlcConnModel HdlcScript HdlcChunkProofs HdlcStreamProofs TransportMeter StreamStd.

(* For every byte string F the state's parser accepts as frame f (payload bytes arbitrary, so any
   density of 0x7E, also as control byte), every link state in which that frame may be received,
   and EVERY partition of F into non-empty chunks: polling until nothing is pending after each
   chunk reports only NEED_DATA before the last chunk, delivers exactly f - once - after it, and
   leaves the buffer empty with the search position reset. *)
Theorem C10_any_chunking_one_frame : forall pk F f l l2,
  frame_from_bytes pk F = Ok f -> parse_kind l = Some pk ->
  link_on_frame l pk (f_ssn f) (f_rsn f) = (Ok tt, l2) ->
  forall chunks, Forall (fun ch => ch <> []) chunks -> concat chunks = F ->
  exists ess es_last,
    feed {| c_link := l; c_buf := []; c_pos := 1 |} chunks
      = (ess ++ [es_last ++ [EFrame pk f]], {| c_link := l2; c_buf := []; c_pos := 1 |})
    /\ Forall all_need_data ess /\ all_need_data es_last /\ length ess = (length chunks - 1)%nat.
Proof. exact chunking_single. Qed.

(* a candidate that ends at an inner flag byte is a proper prefix and is never taken for a frame *)
Theorem C10_proper_prefix_is_not_a_frame : forall pk F f n, frame_from_bytes pk F = Ok f ->
  (2 <= n < length F)%nat -> last (firstn n F) 0 = 126 -> frame_from_bytes pk (firstn n F) = Err EParse.
Proof. exact strict_prefix_is_not_a_frame. Qed.

(* non-vacuity: an information frame whose control byte and payload contain the flag byte *)
Definition ex_F : bytes := [126; 160; 14; 33; 2; 35; 126; 7; 163; 230; 231; 0; 126; 194; 23; 126].
Definition ex_l : link := {| l_state := 2; client_ssn := 7; client_rsn := 3; server_ssn := 3; server_rsn := 7 |}.
Definition ex_f : frame :=
  {| f_dest := (16, None, false); f_src := (1, Some 17, true); f_payload := Some [230; 231; 0; 126];
     f_segmented := false; f_final := true; f_ssn := 7; f_rsn := 3 |}.
Example C10_nonvacuous :
  frame_from_bytes KInfo ex_F = Ok ex_f /\ parse_kind ex_l = Some KInfo /\
  fst (link_on_frame ex_l KInfo 7 3) = Ok tt /\
  fst (feed {| c_link := ex_l; c_buf := []; c_pos := 1 |}
         [[126; 160; 14; 33; 2; 35; 126]; [7; 163; 230; 231; 0; 126; 194]; [23; 126]])
    = [[ENeedData; ENeedData]; [ENeedData; ENeedData]; [EFrame KInfo ex_f]].
Proof. split; [vm_compute; reflexivity|]. split; [vm_compute; reflexivity|]. split; vm_compute; reflexivity. Qed.

(* Streams of any number of frames.  `items` lists the frames with the bytes each contributes to
   the stream (`wire`: the whole frame, or the frame without its opening flag when that flag is
   shared with the previous frame's closing flag); `chain l items l'` says that each frame is one
   the parser of the link state at that point accepts and the link procedure admits, with the
   receive-ready frame sent between segments as the transport does (`between`).  Then for EVERY
   partition of the stream into non-empty chunks, polling until nothing is pending after each
   chunk (`feedm`, which continues after a delivered frame): nothing is ever raised; after the
   first j chunks exactly those frames have been delivered - in order, once - whose last byte lies
   within the bytes handed over so far (`deliverable`: never early, never late); after the last
   chunk all frames have been delivered and the buffer is empty with the search position reset. *)
Theorem C10_any_chunking_stream : forall l items l' chunks, chain l items l' ->
  Forall (fun ch => ch <> []) chunks -> concat chunks = stream items ->
  exists outs, feedm {| c_link := l; c_buf := []; c_pos := 1 |} chunks = (outs, {| c_link := l'; c_buf := []; c_pos := 1 |})
    /\ length outs = length chunks
    /\ keys (concat outs) = Some (map key items)
    /\ forall j, (j <= length chunks)%nat ->
         keys (concat (firstn j outs)) = Some (map key (deliverable (length (concat (firstn j chunks))) items)).
Proof. exact chunking_stream. Qed.

(* composed with C09: the stream consists of the STANDARD frames (reference layout) a meter sends for the
   segments ps, numbered as the link prescribes, each sharing its opening flag with the previous closing
   flag or not (flags: any list of booleans) - no acceptance hypothesis is left; any chunking *)
Theorem C10_standard_stream_any_chunking : forall cl sv l ps flags chunks,
  addr_ok cl -> addr_ok sv -> a_server cl = false -> a_server sv = true ->
  l_state l = 2 -> client_ssn l < 8 -> client_rsn l < 8 -> Forall (segment_ok cl sv) ps ->
  let items := set_shared (meter_items cl sv (client_ssn l) (client_rsn l) ps) flags in
  Forall (fun ch => ch <> []) chunks -> concat chunks = stream items ->
  exists outs, feedm {| c_link := l; c_buf := []; c_pos := 1 |} chunks
                 = (outs, {| c_link := link_after l ps; c_buf := []; c_pos := 1 |})
    /\ length outs = length chunks
    /\ keys (concat outs) = Some (map key (meter_items cl sv (client_ssn l) (client_rsn l) ps))
    /\ forall j, (j <= length chunks)%nat ->
         keys (concat (firstn j outs)) = Some (map key (deliverable (length (concat (firstn j chunks))) items)).
Proof. exact standard_stream_any_chunking. Qed.

(* the polling loop the correspondence check runs on model and implementation (HdlcScript.drain)
   is `pollm`, printed *)
Theorem C10_script_polling : forall fuel c cl sv acc es c', pollm fuel c = (es, c') ->
  drain fuel c cl sv acc = (acc ++ map v_event es, c').
Proof. exact drain_pollm. Qed.

(* non-vacuity: two information frames sharing a flag; the first one's control byte and payload
   contain the flag byte; a chunk boundary inside each frame *)
Definition ex_F1 : bytes := [126; 168; 12; 33; 2; 35; 126; 215; 148; 126; 1; 131; 135; 126].
Definition ex_F2 : bytes := [126; 160; 13; 33; 2; 35; 112; 181; 87; 2; 126; 126; 226; 138; 126].
Definition ex_f1 : frame :=
  {| f_dest := (16, None, false); f_src := (1, Some 17, true); f_payload := Some [126; 1];
     f_segmented := true; f_final := true; f_ssn := 7; f_rsn := 3 |}.
Definition ex_f2 : frame :=
  {| f_dest := (16, None, false); f_src := (1, Some 17, true); f_payload := Some [2; 126; 126];
     f_segmented := false; f_final := true; f_ssn := 0; f_rsn := 3 |}.
Definition ex_items : list item :=
  [ {| it_pk := KInfo; it_F := ex_F1; it_f := ex_f1; it_shared := false |};
    {| it_pk := KInfo; it_F := ex_F2; it_f := ex_f2; it_shared := true |} ].
Example C10_stream_nonvacuous :
  (exists l', chain ex_l ex_items l') /\ stream ex_items = ex_F1 ++ tl ex_F2 /\
  map keys (fst (feedm {| c_link := ex_l; c_buf := []; c_pos := 1 |}
         [firstn 5 (stream ex_items); firstn 12 (skipn 5 (stream ex_items)); skipn 17 (stream ex_items)]))
    = [Some []; Some [(KInfo, ex_f1)]; Some [(KInfo, ex_f2)]].
Proof.
  split.
  - eexists. eapply chain_cons; [vm_compute; reflexivity|vm_compute; reflexivity|vm_compute; reflexivity|].
    eapply chain_cons; [vm_compute; reflexivity|vm_compute; reflexivity|vm_compute; reflexivity|].
    apply chain_nil.
  - split; vm_compute; reflexivity.
Qed.

Print Assumptions C10_any_chunking_stream.
Print Assumptions C10_script_polling.
Print Assumptions C10_any_chunking_one_frame.
Print Assumptions C10_standard_stream_any_chunking.
