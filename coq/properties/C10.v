(* C10 — HDLC receive path yields the same frames however the byte stream is chunked. *)
From Dlms Require Import Base FrameModel HdlcConnModel HdlcChunkProofs.

(* For every byte string F the state's parser accepts as frame f (payload bytes arbitrary, so any
   density of 0x7E, also as control byte), every link state in which that frame may be received,
   and EVERY partition of F into non-empty chunks: polling until nothing is pending after each
   chunk reports only NEED_DATA before the last chunk, delivers exactly f - once - after it, and
   leaves the buffer empty with the search position reset. *)
Theorem C10_any_chunking_one_frame : forall pk F f l l2,
  frame_from_bytes pk F = Ok f -> parse_kind l = Some pk ->
  link_on_frame l pk (f_ssn f) (f_rsn f) = (Ok tt, l2) ->
  forall chunks, Forall (fun ch => ch <> []) chunks -> concat chunks = F ->
  exists ess es_last,
    feed {| c_link := l; c_buf := []; c_pos := 1 |} chunks
      = (ess ++ [es_last ++ [EFrame pk f]], {| c_link := l2; c_buf := []; c_pos := 1 |})
    /\ Forall all_need_data ess /\ all_need_data es_last /\ length ess = (length chunks - 1)%nat.
Proof. exact chunking_single. Qed.

(* a candidate that ends at an inner flag byte is a proper prefix and is never taken for a frame *)
Theorem C10_proper_prefix_is_not_a_frame : forall pk F f n, frame_from_bytes pk F = Ok f ->
  (2 <= n < length F)%nat -> last (firstn n F) 0 = 126 -> frame_from_bytes pk (firstn n F) = Err EParse.
Proof. exact strict_prefix_is_not_a_frame. Qed.

(* non-vacuity: an information frame whose control byte and payload contain the flag byte *)
Definition ex_F : bytes := [126; 160; 14; 33; 2; 35; 126; 7; 163; 230; 231; 0; 126; 194; 23; 126].
Definition ex_l : link := {| l_state := 2; client_ssn := 7; client_rsn := 3; server_ssn := 3; server_rsn := 7 |}.
Definition ex_f : frame :=
  {| f_dest := (16, None, false); f_src := (1, Some 17, true); f_payload := Some [230; 231; 0; 126];
     f_segmented := false; f_final := true; f_ssn := 7; f_rsn := 3 |}.
Example C10_nonvacuous :
  frame_from_bytes KInfo ex_F = Ok ex_f /\ parse_kind ex_l = Some KInfo /\
  fst (link_on_frame ex_l KInfo 7 3) = Ok tt /\
  fst (feed {| c_link := ex_l; c_buf := []; c_pos := 1 |}
         [[126; 160; 14; 33; 2; 35; 126]; [7; 163; 230; 231; 0; 126; 194]; [23; 126]])
    = [[ENeedData; ENeedData]; [ENeedData; ENeedData]; [EFrame KInfo ex_f]].
Proof. split; [vm_compute; reflexivity|]. split; [vm_compute; reflexivity|]. split; vm_compute; reflexivity. Qed.

Print Assumptions C10_any_chunking_one_frame.
