(* C19 — Client GET returns exact data for every block split; errors never pass as data. *)
From Dlms Require Import Base AssocModel AssocSpec ClientModel ClientProofs.

(* a block transfer of two or more blocks - any number, any sizes, empty blocks included: GET returns
   the concatenation in order, every non-final block is acknowledged with a next-block request carrying
   that block's number and invoke id, the association ends READY with nothing left buffered
   (normal and pre-established associations; ciphering is below this layer) *)
Theorem C19_get_block_transfer : forall pre b0 bs lastd lastn lasti rest sent0,
  cl_get (mkcl 2 pre (blk_resp b0 :: map blk_resp bs ++ last_block lastd lastn lasti :: rest) [] sent0)
  = (Ok (blk_data b0 ++ concat (map blk_data bs) ++ lastd),
     mkcl 2 pre rest [] (sent0 ++ (4, 0, 0) :: blk_ack b0 :: map blk_ack bs)).
Proof. exact get_returns_concatenation. Qed.

(* one normal answer: exactly its data *)
Theorem C19_get_normal : forall pre d iid rest sent0,
  cl_get (mkcl 2 pre (normal d iid :: rest) [] sent0) = (Ok d, mkcl 2 pre rest [] (sent0 ++ [(4, 0, 0)])).
Proof. exact get_returns_normal_data. Qed.

(* an error result - immediately or on the last block - raises instead of returning data *)
Theorem C19_get_error_raises : forall pre code iid rest sent0,
  fst (cl_get (mkcl 2 pre (get_error code iid :: rest) [] sent0)) = Err EDataResult.
Proof. exact get_error_raises. Qed.
Theorem C19_get_error_on_last_block_raises : forall pre b0 bs code lastn lasti rest sent0,
  fst (cl_get (mkcl 2 pre (blk_resp b0 :: map blk_resp bs ++ last_block_error code lastn lasti :: rest) [] sent0))
  = Err EDataResult.
Proof. exact get_error_on_last_block_raises. Qed.

(* SET returns the meter's result unchanged; ACTION returns data only on success *)
Theorem C19_set_result : forall pre code iid rest sent0,
  let r := {| r_kind := 13; r_data := []; r_block := 0; r_iid := iid; r_code := code |} in
  cl_set (mkcl 2 pre (r :: rest) [] sent0) = (Ok r, mkcl 2 pre rest [] (sent0 ++ [(6, 0, 0)])).
Proof. exact set_returns_result. Qed.
Theorem C19_action_result : forall pre kind status data iid rest sent0, kind = 14 \/ kind = 15 \/ kind = 16 ->
  let r := {| r_kind := kind; r_data := data; r_block := 0; r_iid := iid; r_code := status |} in
  fst (cl_action (mkcl 2 pre (r :: rest) [] sent0))
  = if kind =? 16 then Err EAction
    else if negb (status =? 0) then Err EAction
    else if kind =? 15 then Ok (Some data) else Ok None.
Proof. exact action_result. Qed.

Example C19_nonvacuous :
  cl_get (mkcl 2 false [block [1; 2] 1 193; block [] 2 193; last_block [3] 3 193; normal [9] 193] [] [])
  = (Ok [1; 2; 3], mkcl 2 false [normal [9] 193] [] [(4, 0, 0); (5, 1, 193); (5, 2, 193)]).
Proof. vm_compute. reflexivity. Qed.

Print Assumptions C19_get_block_transfer.
Print Assumptions C19_get_error_on_last_block_raises.
