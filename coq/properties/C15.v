(* C15 — Profile buffers and association object lists are interpreted column-by-column. *)
From Dlms Require Import Base TimeModel AxdrModel ParsersModel ParsersProofs.

(* one row per entry, one cell per capture object, every cell bound to the capture object of its
   own column (any number of rows and columns, any pattern of nulls, clock columns anywhere) *)
Theorem C15_rows_and_columns : forall clock period rows last out,
  parse_rows clock period rows last = Ok out ->
  length out = length rows /\
  Forall (fun r => length r = length clock) out /\
  Forall (fun r => forall i c v, nth_error r i = Some (Cell c v) -> c = i) out.
Proof. exact rows_and_columns. Qed.

(* a row whose width differs from the capture object list is refused *)
Theorem C15_width_mismatch_refused : forall clock period row rows last,
  length row <> length clock -> parse_rows clock period (PList row :: rows) last = Err ERefused.
Proof. exact width_mismatch_refused. Qed.

(* cell contents: non-clock columns hold the transmitted value (a null stays a null of its column);
   a clock column holds the decoded timestamp, and where it was transmitted as null the running
   timestamp plus the capture period - or nothing if no timestamp has been seen yet *)
Theorem C15_cell_contents : forall clock period row last out last',
  parse_row clock period 0 row last = Ok (out, last') -> length row = length clock ->
  row_spec clock period 0 row last out last'.
Proof. exact cells_follow_spec. Qed.

(* access modes: exactly the rights whose bits are set, for all 256 mode bytes *)
Theorem C15_access_rights : forall mode k, mode < 256 -> k < 8 ->
  (In k (parse_access_right mode) <-> N.testbit mode k = true).
Proof. exact access_rights_bits. Qed.

Example C15_nonvacuous :
  let ts := PBytes [0x07; 0xE4; 0x01; 0x01; 0xFF; 0; 3; 0; 0; 0x80; 0; 0] in
  parse_entries [true; false; false] 15 (PList [PList [ts; PInt 1; PInt 2]; PList [PNone; PNone; PInt 3]])
  = Ok [[Cell 0 (CDateTime (2020, 1, 1, 0, 3, 0, 0, None)); Cell 1 (CRaw (PInt 1)); Cell 2 (CRaw (PInt 2))];
        [Cell 0 (CDateTime (2020, 1, 1, 0, 18, 0, 0, None)); Cell 1 (CRaw PNone); Cell 2 (CRaw (PInt 3))]]
  /\ parse_access_right 0x83 = [0; 1; 7].
Proof. split; vm_compute; reflexivity. Qed.

Print Assumptions C15_rows_and_columns.
Print Assumptions C15_access_rights.
