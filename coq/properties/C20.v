(* C20 — Bit-packed protocol fields use the standard bit positions and round-trip.
   Only statements closed by [exact] and their axioms. *)
From Dlms Require Import Base FieldsModel FieldsSpec FieldsProofs.

(* conformance block: all 2^17 flag sets encode to the Green-Book bits and decode back;
   no two flag sets share an encoding; all 2^24 words decode through the Green-Book bits *)
Theorem C20_conformance_encode_roundtrip : forall flags, length flags = 17%nat ->
  conf_to_bytes flags = Ok (std_conformance flags) /\ conf_from_bytes (std_conformance flags) = flags.
Proof. exact conformance_encode_roundtrip. Qed.
Theorem C20_conformance_injective : forall f g, length f = 17%nat -> length g = 17%nat ->
  std_conformance f = std_conformance g -> f = g.
Proof. exact std_conformance_injective. Qed.
Theorem C20_conformance_decode : forall u a b c,
  conf_from_bytes [u; a; b; c] = std_conformance_decode (be_val [a; b; c]).
Proof. exact conformance_decode_reads_greenbook_bits. Qed.

(* security control byte: suite in bits 0-3, A/E/key-set/compression in bits 4-7; suite > 2 refused *)
Theorem C20_security_control_decode : forall v, v < 256 ->
  match sc_from_byte v with
  | Ok (s, a, e, k, c) =>
      v mod 16 <= 2 /\ s = v mod 16 /\ a = N.testbit v 4 /\ e = N.testbit v 5 /\ k = N.testbit v 6
      /\ c = N.testbit v 7 /\ sc_to_byte (s, a, e, k, c) = v
  | Err _ => 2 < v mod 16
  end.
Proof. exact sc_decode_all_256. Qed.
Theorem C20_security_control_encode : forall s a e k c, s <= 2 ->
  sc_make s a e k c = Ok (s, a, e, k, c) /\
  sc_to_bytes (s, a, e, k, c) =
    Ok [s + (if a then 16 else 0) + (if e then 32 else 0) + (if k then 64 else 0) + (if c then 128 else 0)] /\
  (forall b, sc_to_bytes (s, a, e, k, c) = Ok b -> sc_from_bytes b = Ok (s, a, e, k, c)).
Proof. exact sc_encode_roundtrip. Qed.
Theorem C20_security_suite_gt2_refused : forall s a e k c, 2 < s -> sc_make s a e k c = Err ERefused.
Proof. exact sc_refuses_suite_gt2. Qed.

(* invoke-id-and-priority and its 32-bit long form *)
Theorem C20_invoke_id_decode : forall v, v < 256 ->
  iid_from_bytes [v] = Ok (v mod 16, N.testbit v 6, N.testbit v 7).
Proof. exact iid_decode_all_256. Qed.
Theorem C20_invoke_id_encode : forall i c h, i < 16 ->
  iid_to_bytes (i, c, h) = Ok [iid_byte i c h] /\ iid_from_bytes [iid_byte i c h] = Ok (i, c, h).
Proof. exact iid_encode_roundtrip. Qed.
Theorem C20_long_invoke_id_encode : forall i p c s b, i < 2 ^ 24 ->
  liid_to_bytes (i, p, c, s, b) = Ok (liid_status p c s b :: be_bytes 3 i) /\
  liid_from_bytes (liid_status p c s b :: be_bytes 3 i) = Ok (i, p, c, s, b).
Proof. exact liid_encode_roundtrip. Qed.
Theorem C20_long_invoke_id_decode : forall s x y z, s < 256 ->
  liid_from_bytes [s; x; y; z] =
    Ok (be_val [x; y; z], N.testbit s 7, N.testbit s 6, N.testbit s 4, N.testbit s 5).
Proof. exact liid_decode_all. Qed.

(* the long form over every constructor argument (any natural number as id): ids that do not fit 24 bits are refused, and
   whatever is encoded decodes back to the value encoded - so no two distinct values share a pattern *)
Theorem C20_long_invoke_id_out_of_range_refused : forall i p c s b,
  2 ^ 24 <= i -> liid_to_bytes (i, p, c, s, b) = Err ERefused.
Proof. exact liid_out_of_range_refused. Qed.

Theorem C20_long_invoke_id_total_inverse : forall x bs, liid_to_bytes x = Ok bs -> liid_from_bytes bs = Ok x.
Proof. exact liid_encode_total_inverse. Qed.

(* clock status *)
Theorem C20_clock_status_decode : forall v, v < 256 ->
  cstat_from_byte v = (N.testbit v 0, N.testbit v 1, N.testbit v 2, N.testbit v 3, N.testbit v 7)
  /\ cstat_to_byte (cstat_from_byte v) = N.land v 143.
Proof. exact cstat_decode_all_256. Qed.
Theorem C20_clock_status_encode : forall a b c d e,
  cstat_to_byte (a, b, c, d, e) =
    (if a then 1 else 0) + (if b then 2 else 0) + (if c then 4 else 0) + (if d then 8 else 0) + (if e then 128 else 0)
  /\ cstat_to_bytes (a, b, c, d, e) = Ok [cstat_to_byte (a, b, c, d, e)]
  /\ cstat_from_bytes [cstat_to_byte (a, b, c, d, e)] = Ok (a, b, c, d, e).
Proof. exact cstat_encode_roundtrip. Qed.

(* HDLC control bytes *)
Theorem C20_info_ctrl_decode : forall v, v < 256 ->
  match ictrl_from_bytes [v] with
  | Ok (ssn, rsn, f) => N.testbit v 0 = false /\ ssn = (v / 2) mod 8 /\ rsn = v / 32
                        /\ f = N.testbit v 4 /\ ictrl_to_byte (ssn, rsn, f) = v
  | Err _ => N.testbit v 0 = true
  end.
Proof. exact ictrl_decode_all_256. Qed.
Theorem C20_info_ctrl_encode : forall ssn rsn f, ssn < 8 -> rsn < 8 ->
  exists x, ictrl_make (Z.of_N ssn) (Z.of_N rsn) f = Ok x /\ ictrl_to_byte x = std_ctrl_I ssn rsn f
  /\ ictrl_from_bytes [std_ctrl_I ssn rsn f] = Ok (ssn, rsn, f).
Proof. exact ictrl_encode_roundtrip. Qed.
Theorem C20_sequence_number_gt7_refused : forall ssn rsn f, (7 < ssn \/ 7 < rsn \/ ssn < 0 \/ rsn < 0)%Z ->
  ictrl_make ssn rsn f = Err ERefused /\ (7 < rsn \/ rsn < 0 -> rr_make rsn = Err ERefused)%Z.
Proof. exact seq_number_gt7_refused. Qed.
Theorem C20_rr_ctrl_decode : forall v, v < 256 ->
  match rr_from_bytes [v] with
  | Ok rsn => N.testbit v 0 = true /\ rsn = v / 32
  | Err _ => N.testbit v 0 = false
  end.
Proof. exact rr_decode_all_256. Qed.
Theorem C20_rr_ctrl_encode : forall rsn, rsn < 8 ->
  rr_make (Z.of_N rsn) = Ok rsn /\ rr_to_byte rsn = std_ctrl_RR rsn true
  /\ rr_from_bytes [std_ctrl_RR rsn true] = Ok rsn.
Proof. exact rr_encode_roundtrip. Qed.
Theorem C20_unnumbered_ctrl : 
  snrm_ctrl = std_ctrl_SNRM true /\ ua_ctrl = std_ctrl_UA true /\ disc_ctrl = std_ctrl_DISC true
  /\ (forall f, uictrl_to_byte f = std_ctrl_UI f)
  /\ (forall f, uictrl_from_bytes [std_ctrl_UI f] = Ok f).
Proof. exact unnumbered_ctrl_bytes. Qed.
Theorem C20_ctrl_kinds_disjoint : forall ssn rsn rsn' f g, ssn < 8 -> rsn < 8 -> rsn' < 8 ->
  std_ctrl_I ssn rsn f <> std_ctrl_RR rsn' g /\
  (forall o, In o [std_ctrl_SNRM g; std_ctrl_UA g; std_ctrl_DISC g; std_ctrl_UI g] ->
     std_ctrl_I ssn rsn f <> o /\ std_ctrl_RR rsn' g <> o).
Proof. exact ctrl_kinds_disjoint. Qed.

(* HDLC format field *)
Theorem C20_format_decode : forall w, w < 65536 ->
  match fmt_from_bytes [w / 256; w mod 256] with
  | Ok (l, s) => w / 4096 = 10 /\ l = w mod 2048 /\ s = N.testbit w 11
  | Err _ => w / 4096 <> 10
  end.
Proof. exact format_decode_all_65536. Qed.
Theorem C20_format_encode : forall l s, l <= 2047 ->
  exists x, fmt_make (Z.of_N l) s = Ok x /\ fmt_to_bytes x = Ok (std_format l s)
  /\ fmt_from_bytes (std_format l s) = Ok (l, s).
Proof. exact format_encode_roundtrip. Qed.
Theorem C20_format_length_gt2047_refused : forall l s, (2047 < l \/ l < 0)%Z -> fmt_make l s = Err ERefused.
Proof. exact format_refuses_gt2047. Qed.

(* OBIS *)
Theorem C20_obis_bytes : forall o, length o = 6%nat -> bytes_ok o ->
  obis_to_bytes o = Ok o /\ obis_from_bytes o = Ok o.
Proof. exact obis_bytes_roundtrip. Qed.
Theorem C20_obis_dotted : forall a b c d e f,
  a < 256 -> b < 256 -> c < 256 -> d < 256 -> e < 256 -> f < 256 ->
  obis_from_dotted (obis_dotted [a; b; c; d; e; f]) = Ok [a; b; c; d; e; f].
Proof. exact obis_dotted_roundtrip. Qed.

(* non-vacuity: concrete values meeting the hypotheses, with the documented encodings *)
Example C20_nonvacuous :
  conf_to_bytes [false;false;false;false;false;false;false;false;false;false;false;false;true;true;true;true;true]
    = Ok [0; 0; 0; 0x1F]
  /\ sc_from_byte 0x30 = Ok (0, true, true, false, false)
  /\ fmt_from_bytes [0xA8; 0x09] = Ok (9, true)
  /\ obis_dotted [1; 0; 1; 8; 0; 255] = [49;46;48;46;49;46;56;46;48;46;50;53;53].
Proof. repeat split; vm_compute; reflexivity. Qed.

Print Assumptions C20_conformance_encode_roundtrip.
Print Assumptions C20_format_encode.
Print Assumptions C20_obis_dotted.
