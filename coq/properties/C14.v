(* C14 — DLMS data codec: values decode as encoded, lengths honoured, truncation refused. *)
From Dlms Require Import Base AxdrModel AxdrSpec AxdrBridge AxdrProofs.

(* decoding the standard encoding of any supported value tree (any depth, any width, every
   length-prefix form) returns the corresponding Python value and consumes exactly its bytes *)
Theorem C14_decode_std_encode : forall d, data_ok d = true -> forall fuel rest, (size d < fuel)%nat ->
  decode_value fuel (std_encode d ++ rest) = Ok (of_spec (py d), rest).
Proof. exact decode_std_encode. Qed.

(* through the public entry point, for a buffer holding any sequence of values *)
Theorem C14_parse_buffer : forall l, forallb data_ok l = true ->
  parse_as_dlms_data (flat_map std_encode l) =
    Ok (match map of_spec (map py l) with [v] => v | vs => PList vs end).
Proof. exact parse_as_dlms_data_std. Qed.

(* single- and multi-byte length prefixes are both understood *)
Theorem C14_length_forms : forall n rest, n < 4294967296 -> get_len (std_len n ++ rest) = Ok (n, rest).
Proof. exact get_len_std. Qed.

(* encoding produces the standard encoding for every length, including 128 bytes and more *)
Theorem C14_length_encoder : forall n, n < 4294967296 -> encode_variable_integer n = Ok (std_len n).
Proof. exact encode_variable_integer_std. Qed.
Theorem C14_encoders_standard :
  (forall v, len v < 4294967296 -> enc_octet_string v = Ok (std_encode (DOctets v))) /\
  (forall v, v < 4294967296 -> enc_double_long_unsigned v = Ok (std_encode (DU32 v))) /\
  (forall v, v < 65536 -> enc_unsigned_long v = Ok (std_encode (DU16 v))) /\
  (forall z, signed_ok 1 z = true -> enc_integer z = Ok (std_encode (DI8 z))).
Proof. exact encoders_are_standard. Qed.
Theorem C14_capture_object : forall iface obis attr idx,
  iface < 65536 -> len obis < 4294967296 -> signed_ok 1 attr = true -> idx < 65536 ->
  enc_capture_object iface obis attr idx =
    Ok (std_encode (DStruct [DU16 iface; DOctets obis; DI8 attr; DU16 idx])).
Proof. exact capture_object_is_standard. Qed.
Theorem C14_range_descriptor : forall co from_dt to_dt, len from_dt < 4294967296 -> len to_dt < 4294967296 ->
  enc_range_descriptor co from_dt to_dt =
    Ok ([1; 2; 4] ++ co ++ std_encode (DOctets from_dt) ++ std_encode (DOctets to_dt) ++ std_encode (DArray [])).
Proof. exact range_descriptor_is_standard. Qed.

(* an input that ends before the lengths and counts it declares are satisfied is refused
   (every non-empty proper prefix of every encoding), with an ordinary error *)
Theorem C14_truncation_refused : forall d p, data_ok d = true -> p <> [] -> sprefix p (std_encode d) ->
  parse_as_dlms_data p = Err ERefused.
Proof. exact truncation_refused. Qed.

(* and the decoder terminates on every input whatsoever *)
Theorem C14_decoder_terminates : forall b, parse_as_dlms_data b <> Err EFuel.
Proof. exact parse_terminates. Qed.

Example C14_nonvacuous :
  let d := DArray [DStruct [DOctets [1; 2; 3]; DU16 513; DI8 (-1)]; DStruct [DNull; DBool true; DI64 (-2)]] in
  data_ok d = true /\
  std_encode d = [1; 2; 2; 3; 9; 3; 1; 2; 3; 18; 2; 1; 15; 255; 2; 3; 0; 3; 1; 20; 255; 255; 255; 255; 255; 255; 255; 254] /\
  parse_as_dlms_data (std_encode d) =
    Ok (PList [PList [PBytes [1; 2; 3]; PInt 513; PInt (-1)]; PList [PNone; PBool true; PInt (-2)]]) /\
  parse_as_dlms_data [9; 5; 97] = Err ERefused.
Proof. repeat split; vm_compute; reflexivity. Qed.

Print Assumptions C14_decode_std_encode.
Print Assumptions C14_truncation_refused.
Print Assumptions C14_decoder_terminates.
