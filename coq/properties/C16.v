(* C16 — Date-time codec round-trips and keeps the DLMS sign convention for UTC deviation. *)
From Dlms Require Import Base FieldsModel TimeModel TimeSpec TimeProofs.

(* the 12-byte layout: year, month, day, unspecified weekday (0xFF), hour, minute, second,
   hundredths, deviation = minus the UTC offset in minutes (0x8000 for a naive value), status *)
Theorem C16_layout : forall x st, dt_valid x = true ->
  datetime_to_bytes x (Some st) = Ok (std_datetime x st) /\
  datetime_to_bytes x None = Ok (std_datetime x (false, false, false, false, false)).
Proof. exact datetime_layout. Qed.

(* decoding those bytes returns the same instant truncated to hundredths, the same UTC offset
   (naive stays naive, aware stays aware - including offset zero) and the same status flags;
   for every date from year 1 to 9999, every offset within a day, all 32 status flag sets *)
Theorem C16_roundtrip : forall x st, dt_valid x = true ->
  datetime_from_bytes (std_datetime x st) = Ok (trunc10ms x, st).
Proof. exact datetime_roundtrip. Qed.

(* whatever is accepted has every calendar field inside its range (so out-of-range is refused) *)
Theorem C16_date_fields_in_range : forall b y m d, date_from_bytes b = Ok (y, m, d) ->
  length b = 5%nat /\ y = be_val (slice 0 2 b) /\ m = nth 2 b 0 /\ d = nth 3 b 0 /\
  1 <= y <= 9999 /\ 1 <= m <= 12 /\ 1 <= d <= days_in_month y m /\
  (nth 4 b 0 = 255 \/ 1 <= nth 4 b 0 <= 7).
Proof. exact date_decode_sound. Qed.
Theorem C16_time_fields_in_range : forall b h mi s us, time_from_bytes b = Ok (h, mi, s, us) ->
  length b = 4%nat /\ time_field_ok (nth 0 b 0) h 23 /\ time_field_ok (nth 1 b 0) mi 59 /\
  time_field_ok (nth 2 b 0) s 59 /\ exists hu, us = hu * 10000 /\ time_field_ok (nth 3 b 0) hu 99.
Proof. exact time_decode_sound. Qed.
Theorem C16_datetime_is_date_time_deviation_status : forall b y m d h mi s us off st,
  datetime_from_bytes b = Ok ((y, m, d, h, mi, s, us, off), st) ->
  length b = 12%nat /\ date_from_bytes (slice 0 5 b) = Ok (y, m, d) /\
  time_from_bytes (slice 5 9 b) = Ok (h, mi, s, us) /\
  off = (let dev := be_val_signed (slice 9 11 b) in if (dev =? -32768)%Z then None else Some (- dev)%Z) /\
  cstat_from_bytes [nth 11 b 0] = Ok st.
Proof. exact datetime_decode_sound. Qed.

(* non-vacuity: the repo's own vector 2020-01-01 00:03:00 UTC+02:00 and a UTC value *)
Example C16_nonvacuous :
  dt_valid (2020, 1, 1, 0, 3, 0, 0, Some 120%Z) = true /\
  std_datetime (2020, 1, 1, 0, 3, 0, 0, Some 120%Z) (false, false, false, false, false)
    = [0x07; 0xE4; 0x01; 0x01; 0xFF; 0x00; 0x03; 0x00; 0x00; 0xFF; 0x88; 0x00] /\
  datetime_from_bytes [0x07; 0xE4; 0x02; 0x1D; 0xFF; 23; 59; 59; 99; 0; 0; 0x80]
    = Ok ((2020, 2, 29, 23, 59, 59, 990000, Some 0%Z), (false, false, false, false, true)) /\
  datetime_from_bytes [0x07; 0xE5; 0x02; 0x1D; 0xFF; 23; 59; 59; 99; 0; 0; 0x80] = Err ERefused.
Proof. repeat split; vm_compute; reflexivity. Qed.

Print Assumptions C16_roundtrip.
Print Assumptions C16_layout.
