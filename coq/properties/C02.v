(* C02 — ACSE APDUs (AARQ/AARE/RLRQ/RLRE) encode to valid BER and decode back unchanged. *)
From Dlms Require Import Base XdlmsModel AcseModel AcseSpec AcseProofs.
From Dlms.Gen Require GenEnums.

(* every association request in the domain (any context, mechanism, titles / certificates / passwords / challenges and
   user-information of any length below 2^24): the encoder produces the standard BER bytes, those bytes are the encoding of a
   tree (definite-length TLVs, well nested at every level), and decoding them returns the value (None == NONE) *)
Theorem C02_aarq : forall a, wf_aarq a = true ->
  aarq_to_bytes a = Ok (std_aarq a) /\ std_aarq a = encode_ber (aarq_tree a) /\ aarq_from_bytes (std_aarq a) = Ok (normal_aarq a).
Proof. exact aarq_codec. Qed.
Print Assumptions C02_aarq.
Theorem C02_aare : forall a, wf_aare a = true ->
  aare_to_bytes a = Ok (std_aare a) /\ std_aare a = encode_ber (aare_tree a) /\ aare_from_bytes (std_aare a) = Ok (normal_aare a).
Proof. exact aare_codec. Qed.
Print Assumptions C02_aare.
Theorem C02_rlrq : forall a, wf_release GenEnums.enum_ReleaseRequestReason a = true ->
  rlrq_to_bytes a = Ok (std_release 98 a) /\ std_release 98 a = encode_ber (release_tree 98 a) /\ rlrq_from_bytes (std_release 98 a) = Ok a.
Proof. exact rlrq_codec. Qed.
Print Assumptions C02_rlrq.
Theorem C02_rlre : forall a, wf_release GenEnums.enum_ReleaseResponseReason a = true ->
  rlre_to_bytes a = Ok (std_release 99 a) /\ std_release 99 a = encode_ber (release_tree 99 a) /\ rlre_from_bytes (std_release 99 a) = Ok a.
Proof. exact rlre_codec. Qed.
Print Assumptions C02_rlre.

(* sender-acse-requirements and mechanism-name are present exactly when a mechanism other than none is selected;
   the authentication value exactly when one is given *)
Theorem C02_aarq_authentication_components : forall a,
  (In 138 (child_tags (aarq_tree a)) <-> uses_authentication (q_auth a) = true) /\
  (In 139 (child_tags (aarq_tree a)) <-> uses_authentication (q_auth a) = true) /\
  (In 172 (child_tags (aarq_tree a)) <-> q_value a <> None).
Proof. exact aarq_authentication_components. Qed.
Print Assumptions C02_aarq_authentication_components.
Theorem C02_aare_authentication_components : forall a,
  (In 136 (child_tags (aare_tree a)) <-> uses_authentication (e_auth a) = true) /\
  (In 137 (child_tags (aare_tree a)) <-> uses_authentication (e_auth a) = true) /\
  (In 170 (child_tags (aare_tree a)) <-> e_value a <> None).
Proof. exact aare_authentication_components. Qed.
Print Assumptions C02_aare_authentication_components.
(* for the combinations the connection builds all three follow the mechanism; for the others the statement is false (F02c) *)
Theorem C02_components_follow_mechanism : forall a, (q_value a <> None <-> uses_authentication (q_auth a) = true) ->
  forall t, In t [138; 139; 172]%N -> (In t (child_tags (aarq_tree a)) <-> uses_authentication (q_auth a) = true).
Proof. exact aarq_components_follow_mechanism. Qed.
Print Assumptions C02_components_follow_mechanism.
Theorem C02_authentication_value_without_mechanism_refuted :
  exists a, wf_aarq a = true /\ uses_authentication (q_auth a) = false /\ In 172%N (child_tags (aarq_tree a)).
Proof. exact authentication_value_without_mechanism_refuted. Qed.
Print Assumptions C02_authentication_value_without_mechanism_refuted.
Theorem C02_encoding_injective : forall a b, wf_aarq a = true -> wf_aarq b = true -> aarq_to_bytes a = aarq_to_bytes b -> normal_aarq a = normal_aarq b.
Proof. exact aarq_encoding_injective. Qed.
Print Assumptions C02_encoding_injective.

Example C02_domain_inhabited : wf_aarq ex_aarq = true /\ wf_aare ex_aare = true /\ wf_release GenEnums.enum_ReleaseRequestReason ex_rlrq = true /\
  wf_release GenEnums.enum_ReleaseResponseReason {| r_reason := None; r_user := None |} = true.
Proof. exact ex_acse_wf. Qed.
