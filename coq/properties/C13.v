(* C13 — HDLC addresses use the 1/2/4-byte extended form and decode to the same address. *)
From Dlms Require Import Base AddrModel AddrSpec AddrProofs.

(* every accepted address in the proved domain is written in the standard 1/2/4-byte form *)
Theorem C13_encode_is_standard : forall a, addr_ok a -> addr_to_bytes a = std_addr a.
Proof. exact addr_encode_is_standard. Qed.

(* locating and decoding both addresses in a frame built with them returns the same values *)
Theorem C13_locate_decode : forall d s f1 f2 tail, addr_ok d -> addr_ok s ->
  find_addresses ([126; f1; f2] ++ addr_to_bytes d ++ addr_to_bytes s ++ tail)
  = Ok ((a_logical d, a_physical d, addr_length d), (a_logical s, a_physical s, addr_length s)).
Proof. exact addr_locate_decode_roundtrip. Qed.
Theorem C13_objects_roundtrip : forall d s f1 f2 tail, addr_ok d -> addr_ok s ->
  let f := [126; f1; f2] ++ addr_to_bytes d ++ addr_to_bytes s ++ tail in
  destination_from_bytes f (a_server d) = Ok d /\ source_from_bytes f (a_server s) = Ok s.
Proof. exact addr_objects_roundtrip. Qed.

(* a frame can never be attributed to a different station *)
Theorem C13_injective : forall a b, addr_ok a -> addr_ok b -> a_server a = a_server b ->
  addr_to_bytes a = addr_to_bytes b -> a = b.
Proof. exact addr_injective. Qed.

Theorem C13_out_of_range_refused : forall (l : Z) (p : option Z) (server : bool),
  ((if server then 16383 else 127) < l \/ l < 0)%Z -> addr_make l p server = Err ERefused.
Proof. exact addr_out_of_range_refused. Qed.

(* every address the library accepts lies in that domain: the theorems above speak about ALL accepted addresses
   (since the repair of the two former findings: a server upper address above 127 without a lower address, and a client
   address with a physical part, are refused at construction) *)
Theorem C13_accepted_is_standard : forall l p server a, addr_make l p server = Ok a -> addr_ok a.
Proof. exact addr_accepted_is_standard. Qed.
Print Assumptions C13_accepted_is_standard.

(* non-vacuity *)
Example C13_nonvacuous :
  addr_ok (16, None, false) /\ addr_ok (1, Some 17, true) /\ addr_ok (200, Some 300, true)
  /\ addr_to_bytes (1, Some 17, true) = [0x02; 0x23]
  /\ addr_to_bytes (200, Some 300, true) = [0x02; 0x90; 0x04; 0x59].
Proof. cbn [addr_ok]. repeat split; try lia; vm_compute; reflexivity. Qed.

Print Assumptions C13_locate_decode.
Print Assumptions C13_injective.
