(* C06 — invocation counters: a fresh nonce per protected send, replays refused.  E is an arbitrary block function. *)
From Dlms Require Import Base XdlmsModel AcseModel ConnModel ConnProofs.

(* over ANY session (sends, receives, HLS replies, in any order and number, from any starting counter): the counters fed to the
   AES-GCM primitive with the global key are start, start+1, start+2, ... - the i-th use takes start + i *)
Theorem C06_client_nonces_consecutive : forall (E : bytes -> bytes -> bytes) k ops c,
  nonces E k c ops = map (fun i => c_cic c + N.of_nat i) (seq 0 (length (nonces E k c ops))) /\
  c_cic (snd (run E k c ops)) = c_cic c + N.of_nat (length (nonces E k c ops)).
Proof. exact client_nonces_consecutive. Qed.
Print Assumptions C06_client_nonces_consecutive.
(* hence no nonce (system title || counter) is ever used twice *)
Theorem C06_client_nonces_fresh : forall (E : bytes -> bytes -> bytes) k c ops, NoDup (nonces E k c ops).
Proof. exact client_nonces_fresh. Qed.
Print Assumptions C06_client_nonces_fresh.
(* a protected service APDU carries the counter it used (C04_service_apdu_layout) and a step moves the counter by 0 or 1 *)
Theorem C06_step_counter : forall (E : bytes -> bytes -> bytes) k c o,
  c_cic (snd (step E k c o)) = c_cic c \/ c_cic (snd (step E k c o)) = c_cic c + 1.
Proof. exact step_counter. Qed.
Print Assumptions C06_step_counter.

(* receive side: an accepted ciphered APDU has a counter strictly above the stored one, which it replaces; anything else leaves it *)
Theorem C06_accepted_counter : forall (E : bytes -> bytes -> bytes) k c buf m c', dlms_next_event E k c buf = (Ok m, c') ->
  if use_protection k then
    match wire_counter buf with
    | Some ic => c_mic c < ic /\ c_mic c' = ic
    | None => c_mic c' = c_mic c
    end
  else c_mic c' = c_mic c.
Proof. exact accepted_counter. Qed.
Print Assumptions C06_accepted_counter.
(* over ANY session: the counters of the accepted ciphered APDUs are strictly increasing from the starting value, so a recorded
   APDU delivered again, an older one, or one equal to the last accepted is never accepted *)
Theorem C06_accepted_counters_increase : forall (E : bytes -> bytes -> bytes) k ops, use_protection k = true ->
  forall c, increasing_from (c_mic c) (accepted E k c ops).
Proof. exact accepted_counters_increase. Qed.
Print Assumptions C06_accepted_counters_increase.

Example C06_nonvacuous : increasing_from 3 [4; 9; 10] /\ ~ increasing_from 3 [4; 4].
Proof. cbn. split; [repeat split; reflexivity|]. intros (_ & H & _). discriminate H. Qed.
