(* C09 — HDLC frames follow the frame format, round-trip; corruption never alters content.
   (partial: see the level note in MANIFEST.json and DESIGN.md; the parse-after-build and
   corruption statements are checked by exhaustive fault enumeration on the implementation) *)
From Dlms Require Import CrcSpec CrcDetect CrcWeight FrameDetect FrameWeight FrameRoundtrip Base CrcModel CrcSpec FieldsSpec AddrModel AddrSpec AddrProofs FrameModel FrameSpec FrameProofs.

(* every frame the library can build (all six kinds, addresses in the C13 domain, numbers 0..7,
   both flag bits, any payload with total length <= 2047) serialises to
   flag | format(type 3, S, 11-bit length) | dest | src | control | HCS | information | FCS | flag
   with the length counting everything between the flags and both check sequences being the
   X-25 CRC over the right spans *)
Theorem C09_layout : forall k f, frame_ok k f -> frame_to_bytes k f = Ok (std_frame k f).
Proof. exact frame_build_is_standard. Qed.

(* round trip: parsing the standard bytes of any frame in the domain returns its addresses, sequence numbers, poll/final and
   segmentation bits and payload ([norm]: the attributes a frame of that kind carries), for each of the five parsers the library has,
   with the addresses in the direction the parser assumes (destination = server for DISC, client otherwise) *)
Theorem C09_parse_of_build : forall k f, frame_ok k f ->
  a_server (f_dest f) = is_disc k -> a_server (f_src f) = negb (is_disc k) -> k <> KSnrm ->
  frame_from_bytes k (std_frame k f) = Ok (norm k f).
Proof. exact parse_of_build. Qed.
Print Assumptions C09_parse_of_build.

(* whatever a parser accepts is enclosed by flags, is exactly as long as its format field says
   and carries a frame check sequence that is correct for the received bytes themselves *)
Theorem C09_acceptance_sound : forall k b f, frame_from_bytes k b = Ok f ->
  hd 0 b = 126 /\ last b 0 = 126 /\
  N.land (be_val (slice 1 3 b)) 2047 + 2 = len b /\ fcs_valid b.
Proof. exact frame_acceptance_sound. Qed.

(* truncated or extended byte strings (length differing from the carried length field) are refused *)
Theorem C09_resize_refused : forall k b, N.land (be_val (slice 1 3 b)) 2047 + 2 <> len b ->
  exists e, frame_from_bytes k b = Err e.
Proof. exact frame_resize_refused. Qed.

(* corruption: a valid frame hit by ANY single error burst of at most 16 bits between its flags (pattern p <> 0 below 2^16
   starting at bit s of the byte at offset 1 + before; a single flipped bit is p = 1) is refused by every parser, for frames of
   every length *)
Theorem C09_burst_error_refused : forall k b before after p s,
  p < 65536 -> p <> 0 -> s < 8 -> length b = (before + after + 5)%nat ->
  bytes_ok b -> bytes_ok (xor_bytes b (frame_error before after p s)) -> fcs_valid b ->
  exists e, frame_from_bytes k (xor_bytes b (frame_error before after p s)) = Err e.
Proof. exact burst_error_refused. Qed.
Print Assumptions C09_burst_error_refused.
(* ... including bursts that end in the last bytes of the frame check sequence *)
Theorem C09_burst_error_at_end_refused : forall k b before m p s,
  p < 65536 -> p <> 0 -> s < 8 -> (1 <= m <= 3)%nat -> p * 2 ^ s < 256 ^ N.of_nat m -> length b = (before + m + 2)%nat -> (4 <= length b)%nat ->
  bytes_ok b -> bytes_ok (xor_bytes b (frame_error_end before m p s)) -> fcs_valid b ->
  exists e, frame_from_bytes k (xor_bytes b (frame_error_end before m p s)) = Err e.
Proof. exact burst_error_at_end_refused. Qed.
Print Assumptions C09_burst_error_at_end_refused.
(* ... and every error of TWO bits (frames up to 4097 bytes; the library's frames are at most 2049) and of THREE bits between the
   flags: with the burst theorem (one bit) this is every error of up to three bits; a damaged flag is refused by C09_acceptance_sound *)
Theorem C09_two_bit_error_refused : forall k b i1 q1 i2 q2,
  let L := (length b - 2)%nat in
  (4 <= length b)%nat -> (length b <= 4097)%nat -> (i1 < L)%nat -> (i2 < L)%nat -> q1 < 8 -> q2 < 8 -> (i1, q1) <> (i2, q2) ->
  let e := xor_bytes (sbit L i1 q1) (sbit L i2 q2) in
  bytes_ok b -> bytes_ok (xor_bytes b (0 :: e ++ [0])) -> fcs_valid b ->
  exists err, frame_from_bytes k (xor_bytes b (0 :: e ++ [0])) = Err err.
Proof. exact two_bit_error_refused. Qed.
Print Assumptions C09_two_bit_error_refused.
Theorem C09_three_bit_error_refused : forall k b i1 q1 i2 q2 i3 q3,
  let L := (length b - 2)%nat in
  (4 <= length b)%nat -> (i1 < L)%nat -> (i2 < L)%nat -> (i3 < L)%nat -> q1 < 8 -> q2 < 8 -> q3 < 8 ->
  let e := xor_bytes (xor_bytes (sbit L i1 q1) (sbit L i2 q2)) (sbit L i3 q3) in
  bytes_ok b -> bytes_ok (xor_bytes b (0 :: e ++ [0])) -> fcs_valid b ->
  exists err, frame_from_bytes k (xor_bytes b (0 :: e ++ [0])) = Err err.
Proof. exact three_bit_error_refused. Qed.
Print Assumptions C09_three_bit_error_refused.
(* in general: any error pattern between the flags whose syndrome is not zero; any pattern of odd weight has one *)
Theorem C09_nonzero_syndrome_refused : forall k b e, length b = (length e + 2)%nat -> (4 <= length b)%nat ->
  bytes_ok b -> bytes_ok (xor_bytes b (0 :: e ++ [0])) -> fcs_valid b -> syndrome e <> 0 ->
  exists err, frame_from_bytes k (xor_bytes b (0 :: e ++ [0])) = Err err.
Proof. exact nonzero_syndrome_refused. Qed.
Print Assumptions C09_nonzero_syndrome_refused.
Theorem C09_odd_weight_detected : forall e, bytes_ok e -> pattern_parity e = true -> syndrome e <> 0.
Proof. exact odd_weight_detected. Qed.
Print Assumptions C09_odd_weight_detected.

(* the register is linear, and every burst has a non-zero syndrome *)
Theorem C09_crc_detects_bursts : forall m before after p s, p < 65536 -> p <> 0 -> s < 8 ->
  length m = (before + 3 + after)%nat ->
  x25_reg (xor_bytes m (burst_error before after p s)) <> x25_reg m.
Proof. exact corrupted_crc_differs. Qed.
Print Assumptions C09_crc_detects_bursts.

Example C09_nonvacuous :
  let f := {| f_dest := (16, None, false); f_src := (1, Some 17, true); f_payload := Some [0xE6; 0xE7; 0x00; 0x7E];
              f_segmented := false; f_final := true; f_ssn := 3; f_rsn := 5 |} in
  frame_ok KInfo f /\
  frame_to_bytes KInfo f = Ok [126; 160; 14; 33; 2; 35; 182; 67; 233; 230; 231; 0; 126; 194; 23; 126] /\
  exists g, frame_from_bytes KInfo [126; 160; 14; 33; 2; 35; 182; 67; 233; 230; 231; 0; 126; 194; 23; 126] = Ok g
            /\ f_payload g = Some [0xE6; 0xE7; 0x00; 0x7E] /\ f_ssn g = 3 /\ f_rsn g = 5.
Proof.
  cbv zeta. split.
  - unfold frame_ok. cbn. repeat split; try lia. repeat constructor; unfold byte_ok; lia.
  - split; [vm_compute; reflexivity|]. eexists. split; [vm_compute; reflexivity|]. repeat split.
Qed.

Print Assumptions C09_layout.
Print Assumptions C09_acceptance_sound.
