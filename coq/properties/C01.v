(* C01 — xDLMS APDUs encode to the standard A-XDR bytes and decoding inverts encoding. *)
From Dlms Require Import Base XdlmsModel XdlmsSpec XdlmsProofs.

(* every value of every kind in the domain [wf_apdu] (all invoke-ids and flags, every enumeration member of the source,
   all OBIS codes, ids, block numbers, counters and long-invoke-ids of their full range, payloads of any length below 2^32):
   the encoder produces exactly the standard bytes and the tag-dispatching decoder maps them back to the value *)
Theorem C01_apdu_codec : forall a, wf_apdu a = true ->
  apdu_to_bytes a = Ok (std_apdu a) /\ xdlms_from_bytes (std_apdu a) = Ok a.
Proof. exact apdu_codec. Qed.
Print Assumptions C01_apdu_codec.

(* hence no two different values share an encoding *)
Theorem C01_encoding_injective : forall a b, wf_apdu a = true -> wf_apdu b = true ->
  apdu_to_bytes a = apdu_to_bytes b -> a = b.
Proof. exact apdu_encoding_injective. Qed.
Print Assumptions C01_encoding_injective.

(* the full statement is false outside the domain - the two known findings *)
Theorem C01_get_request_access_selection_refuted : exists a b, apdu_to_bytes a = Ok b /\ xdlms_from_bytes b <> Ok a.
Proof. exact get_request_access_selection_refuted. Qed.
Print Assumptions C01_get_request_access_selection_refuted.
Theorem C01_initiate_request_fields_refuted : exists a a' b, a <> a' /\ apdu_to_bytes a = Ok b /\ apdu_to_bytes a' = Ok b.
Proof. exact initiate_request_fields_refuted. Qed.
Print Assumptions C01_initiate_request_fields_refuted.

(* non-vacuity: one value of every kind satisfies the hypothesis *)
Example C01_domain_inhabited : forallb wf_apdu ex_values = true /\ length ex_values = 27%nat.
Proof. split; [exact ex_values_wf | reflexivity]. Qed.
