(* C05 — AES-GCM protection matches the DLMS construction and detects every tampering.
   All theorems hold for an arbitrary block function E with 16-byte output, hence for AES. *)
From Dlms Require Import Base FieldsModel Aes Gcm SecurityModel SecurityProofs WrapProofs.

(* protecting a plaintext yields exactly GCM ciphertext || first 12 tag bytes, with
   nonce = system title || 4-byte counter and associated data = security-control byte || authentication key *)
Theorem C05_construction : forall (E : bytes -> bytes -> bytes) x title ic key ak pt,
  (sc_encrypted x || sc_authenticated x = true) -> length title = 8%nat -> ic < 2 ^ 32 -> keys_ok x key ak ->
  let iv := title ++ be_bytes 4 ic in
  let aad := sc_to_byte x :: ak in
  sec_encrypt E x title ic key ak pt
  = Ok (gcm_crypt (E key) iv pt ++ firstn 12 (gcm_tag (E key) iv aad (gcm_crypt (E key) iv pt))).
Proof. exact protect_is_dlms_gcm. Qed.

(* removing protection with the same parameters returns the original plaintext: every length, key,
   title, counter below 2^32 and suite *)
Theorem C05_roundtrip : forall (E : bytes -> bytes -> bytes), (forall k b, length (E k b) = 16%nat) ->
  forall x title ic key ak pt ct,
  (sc_encrypted x || sc_authenticated x = true) -> length title = 8%nat -> ic < 2 ^ 32 -> keys_ok x key ak ->
  sec_encrypt E x title ic key ak pt = Ok ct -> sec_decrypt E x title ic key ak ct = Ok pt.
Proof. exact unprotect_protect. Qed.

(* removal never returns data unless the received tag is the GCM tag of the received ciphertext *)
Theorem C05_no_data_without_tag : forall (E : bytes -> bytes -> bytes) x title ic key ak ct_in p,
  sec_decrypt E x title ic key ak ct_in = Ok p ->
  exists iv, prepare x title ic key ak = Ok iv /\ (12 <= length ct_in)%nat /\
    lastn 12 ct_in = firstn 12 (gcm_tag (E key) iv (sc_to_byte x :: ak) (droplast 12 ct_in)) /\
    p = gcm_crypt (E key) iv (droplast 12 ct_in).
Proof. exact unprotect_ok_only_if_tag. Qed.

(* any change confined to the 12 tag bytes is refused with the decryption error *)
Theorem C05_tag_change_refused : forall (E : bytes -> bytes -> bytes) x title ic key ak pt c tag',
  (sc_encrypted x || sc_authenticated x = true) -> length title = 8%nat -> ic < 2 ^ 32 -> keys_ok x key ak ->
  let iv := title ++ be_bytes 4 ic in
  c = gcm_crypt (E key) iv pt -> length tag' = 12%nat ->
  tag' <> firstn 12 (gcm_tag (E key) iv (sc_to_byte x :: ak) c) ->
  sec_decrypt E x title ic key ak (c ++ tag') = Err EDecrypt.
Proof. exact tag_change_refused. Qed.

(* keys whose length does not match the suite (16 bytes for suites 0 and 1, 32 for suite 2), titles that
   are not 8 bytes and texts shorter than a tag are refused *)
Theorem C05_bad_parameters_refused : forall (E : bytes -> bytes -> bytes) x title ic key ak data,
  (length title <> 8%nat \/ validate_key (sc_suite x) key <> Ok tt \/ validate_key (sc_suite x) ak <> Ok tt) ->
  (exists e, sec_encrypt E x title ic key ak data = Err e) /\
  (exists e, sec_decrypt E x title ic key ak data = Err e) /\
  (exists e, sec_gmac E x title ic key ak data = Err e).
Proof. exact bad_parameters_refused. Qed.
Theorem C05_key_lengths : forall suite key,
  validate_key suite key = Ok tt <->
  (suite = 0 /\ length key = 16%nat) \/ (suite = 1 /\ length key = 16%nat) \/ (suite = 2 /\ length key = 32%nat).
Proof. exact validate_key_lengths. Qed.
Theorem C05_short_text_refused : forall (E : bytes -> bytes -> bytes) x title ic key ak ct_in, (length ct_in < 12)%nat ->
  exists e, sec_decrypt E x title ic key ak ct_in = Err e.
Proof. exact short_text_refused. Qed.

(* a wrapped key unwraps to the key that was wrapped (RFC 3394), for any key of a whole number of 8-byte blocks (16 or 32
   bytes in DLMS) and any pair of block functions with D (E x) = x on 16-byte blocks *)
Theorem C05_unwrap_wrap : forall (E D : bytes -> bytes),
  (forall x, length x = 16%nat -> length (E x) = 16%nat) -> (forall x, length x = 16%nat -> D (E x) = x) ->
  forall key_data, Nat.modulo (length key_data) 8 = 0%nat -> (16 <= length key_data)%nat ->
  key_unwrap D (key_wrap E key_data) = Some key_data.
Proof. exact unwrap_wrap. Qed.
Print Assumptions C05_unwrap_wrap.

(* non-vacuity: the DLMS Green Book vector, with the executable AES *)
Example C05_nonvacuous :
  let key := be_bytes 16 0x000102030405060708090A0B0C0D0E0F in
  let ak := be_bytes 16 0xD0D1D2D3D4D5D6D7D8D9DADBDCDDDEDF in
  let title := be_bytes 8 0x4D4D4D0000BC614E in
  let pt := be_bytes 13 0xC0010000080000010000FF0200 in
  keys_ok (0, true, true, false, false) key ak /\
  sec_encrypt aes_encrypt (0, true, true, false, false) title 0x01234567 key ak pt
    = Ok (be_bytes 25 0x411312FF935A47566827C467BC7D825C3BE4A77C3FCC056B6B) /\
  sec_decrypt aes_encrypt (0, true, true, false, false) title 0x01234567 key ak
    (be_bytes 25 0x411312FF935A47566827C467BC7D825C3BE4A77C3FCC056B6B) = Ok pt.
Proof. cbv zeta. split; [split; reflexivity|]. split; vm_compute; reflexivity. Qed.

Print Assumptions C05_roundtrip.
Print Assumptions C05_no_data_without_tag.
