(* Extraction of the executable model.  Only ExtrOcamlBasic is used: bool, option, unit,
   list, prod, sumbool, sumor map to OCaml's; N, Z, positive, nat stay Coq datatypes.
   No Extract Constant / Extract Inductive of our own. *)
From Coq Require Extraction ExtrOcamlBasic.
From Dlms Require Import Base Dispatch.
Extraction "dlms_model.ml" run.
