(* Line driver for the extracted model.  Input:  "<opcode-decimal> <value>"  per line,
   output one value per line.  Value syntax (space separated tokens):
     N | T | F | I<hex> | I-<hex> | B<hex> | E<hex> | L( v ... )                         *)
open Dlms_model

let rec pos_of_bits (s : string) (i : int) (acc : positive) : positive =
  (* s is a binary string, most significant first; acc holds bits consumed so far *)
  if i >= String.length s then acc
  else pos_of_bits s (i + 1) (if s.[i] = '1' then XI acc else XO acc)

let hexdigit c =
  match c with
  | '0' .. '9' -> Char.code c - 48
  | 'a' .. 'f' -> Char.code c - 87
  | 'A' .. 'F' -> Char.code c - 55
  | _ -> failwith "hex"

let bin_of_hex (h : string) : string =
  let b = Buffer.create (4 * String.length h) in
  String.iter (fun c ->
      let d = hexdigit c in
      for k = 3 downto 0 do Buffer.add_char b (if (d lsr k) land 1 = 1 then '1' else '0') done) h;
  let s = Buffer.contents b in
  (* strip leading zeros *)
  let n = String.length s in
  let rec first i = if i < n && s.[i] = '0' then first (i + 1) else i in
  let i = first 0 in
  String.sub s i (n - i)

let n_of_hex (h : string) : n =
  let s = bin_of_hex h in
  if s = "" then N0 else Npos (pos_of_bits s 1 XH)

let z_of_hex (h : string) : z =
  let neg = String.length h > 0 && h.[0] = '-' in
  let h' = if neg then String.sub h 1 (String.length h - 1) else h in
  match n_of_hex h' with
  | N0 -> Z0
  | Npos p -> if neg then Zneg p else Zpos p

let rec bits_of_pos (p : positive) (acc : char list) : char list =
  match p with
  | XH -> '1' :: acc
  | XO q -> bits_of_pos q ('0' :: acc)
  | XI q -> bits_of_pos q ('1' :: acc)

let hex_of_pos (p : positive) : string =
  let bits = bits_of_pos p [] in
  let n = List.length bits in
  let pad = (4 - n mod 4) mod 4 in
  let bits = List.init pad (fun _ -> '0') @ bits in
  let b = Buffer.create 16 in
  let rec go l =
    match l with
    | a :: b1 :: c :: d :: r ->
        let v x = if x = '1' then 1 else 0 in
        let x = (v a lsl 3) lor (v b1 lsl 2) lor (v c lsl 1) lor v d in
        Buffer.add_char b "0123456789abcdef".[x];
        go r
    | _ -> ()
  in
  go bits;
  Buffer.contents b

let hex_of_n (x : n) : string = match x with N0 -> "0" | Npos p -> hex_of_pos p

let rec small_int_of_pos (p : positive) : int =
  match p with XH -> 1 | XO q -> 2 * small_int_of_pos q | XI q -> 2 * small_int_of_pos q + 1
let small_int_of_n (x : n) : int = match x with N0 -> 0 | Npos p -> small_int_of_pos p

let rec small_pos (i : int) : positive =
  if i = 1 then XH else if i land 1 = 0 then XO (small_pos (i lsr 1)) else XI (small_pos (i lsr 1))
let small_n (i : int) : n = if i = 0 then N0 else Npos (small_pos i)

let bytes_of_hex (h : string) : n list =
  let n = String.length h / 2 in
  let rec go i acc =
    if i < 0 then acc
    else go (i - 1) (small_n ((hexdigit h.[2 * i] lsl 4) lor hexdigit h.[2 * i + 1]) :: acc)
  in
  go (n - 1) []

(* tokenizer *)
let tokens (line : string) : string list =
  List.filter (fun s -> s <> "") (String.split_on_char ' ' line)

let rec parse_v (toks : string list) : v * string list =
  match toks with
  | [] -> failwith "eof"
  | t :: rest ->
      if t = "N" then (VNone, rest)
      else if t = "T" then (VBool true, rest)
      else if t = "F" then (VBool false, rest)
      else if t = "L(" then parse_list rest []
      else
        let body = String.sub t 1 (String.length t - 1) in
        (match t.[0] with
         | 'I' -> (VInt (z_of_hex body), rest)
         | 'B' -> (VBytes (bytes_of_hex body), rest)
         | 'E' -> (VErr (n_of_hex body), rest)
         | _ -> failwith ("token " ^ t))

and parse_list (toks : string list) (acc : v list) : v * string list =
  match toks with
  | ")" :: rest -> (VList (List.rev acc), rest)
  | _ ->
      let x, rest = parse_v toks in
      parse_list rest (x :: acc)

let rec print_v (b : Buffer.t) (x : v) : unit =
  match x with
  | VNone -> Buffer.add_string b "N"
  | VBool true -> Buffer.add_string b "T"
  | VBool false -> Buffer.add_string b "F"
  | VInt Z0 -> Buffer.add_string b "I0"
  | VInt (Zpos p) -> Buffer.add_string b "I"; Buffer.add_string b (hex_of_pos p)
  | VInt (Zneg p) -> Buffer.add_string b "I-"; Buffer.add_string b (hex_of_pos p)
  | VBytes l ->
      Buffer.add_char b 'B';
      List.iter (fun y -> Buffer.add_string b (Printf.sprintf "%02x" (small_int_of_n y))) l
  | VErr e -> Buffer.add_string b "E"; Buffer.add_string b (hex_of_n e)
  | VList l ->
      Buffer.add_string b "L(";
      List.iter (fun y -> Buffer.add_char b ' '; print_v b y) l;
      Buffer.add_string b " )"

let () =
  try
    while true do
      let line = input_line stdin in
      (match tokens line with
       | [] -> print_endline "E63"
       | op :: rest ->
           let out =
             try
               let a, _ = parse_v rest in
               let r = run (small_n (int_of_string op)) a in
               let b = Buffer.create 64 in
               print_v b r;
               Buffer.contents b
             with Failure m -> "E63 " ^ m | Stack_overflow -> "E62"
           in
           print_endline out)
    done
  with End_of_file -> ()
