#!/bin/bash
# compile the extracted model + line driver into bin/dlms_model (only when out of date)
set -e
cd /verif/coq
if [ ! -x ../bin/dlms_model ] || [ dlms_model.ml -nt ../bin/dlms_model ] || [ extract/driver.ml -nt ../bin/dlms_model ]; then
  mkdir -p ../work/ocaml && cp dlms_model.ml dlms_model.mli extract/driver.ml ../work/ocaml/
  ( cd ../work/ocaml && ocamlfind ocamlopt -w -a -O3 dlms_model.mli dlms_model.ml driver.ml -o dlms_model.new 2>/dev/null \
      || ocamlfind ocamlopt -w -a dlms_model.mli dlms_model.ml driver.ml -o dlms_model.new )
  mv ../work/ocaml/dlms_model.new ../bin/dlms_model
fi
